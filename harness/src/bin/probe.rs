use deno_graph::MediaType;
fn main() {
  let cases: Vec<(&str, &str)> = vec![
    ("file:///a.js", "const r0 = require(\"./m1.ts\");\n"),
    ("file:///a.ts", "export type I0 = import(\"./m1.ts\").X0;\n"),
    ("file:///a.ts", "declare module \"./m1.ts\" { export const aug: number; }\n"),
    ("file:///a.ts", "import q0 = require(\"./m1.ts\");\n"),
    ("file:///a.js", "/** @type {import(\"./m1.ts\").J0} */\nconst j0 = null;\n"),
    ("file:///a.ts", "/** @type {import(\"./m1.ts\").J0} */\nconst j0 = null;\n"),
    ("file:///a.ts", "// @ts-self-types=\"./m1.ts\"\nexport default 1;\n"),
    ("file:///a.ts", "import source w0 from \"./m1.wasm\";\n"),
    ("file:///a.tsx", "/** @jsxImportSource ./m1.ts */\nexport default 1;\n"),
    ("file:///a.d.ts", "import * as a0 from \"./m1.ts\";\nexport * as s from \"./m2.ts\";\n"),
    ("file:///a.ts", "// @ts-types=\"./m2.ts\"\nimport * as a0 from \"./m1.ts\";\n"),
    ("file:///a.ts", "/// <reference types=\"./m1.ts\" />\n/// <reference path=\"./m2.ts\" />\n"),
    ("file:///a.ts", "import \"./m1.ts\";\nexport { default as n0 } from \"./m2.ts\";\n"),
  ];
  for (spec, src) in cases {
    let url = deno_graph::ModuleSpecifier::parse(spec).unwrap();
    let a = deno_graph::ast::ParserModuleAnalyzer::default();
    match a.analyze_sync(&url, src.into(), MediaType::from_specifier(&url)) {
      Ok(info) => println!("{spec}\n{src}{}\n", serde_json::to_string(&info).unwrap()),
      Err(e) => println!("{spec} ERR {e}"),
    }
  }
}
