//! Choice-driven stateless explorer: a run is a deterministic function of a
//! finite sequence of small integer choices; `explore` enumerates every such
//! sequence inside a bound (Full, or at most d non-default picks) and the
//! oracle inside the body is evaluated on every completed run.

use serde_json::Value;
use serde_json::json;
use std::cell::RefCell;
use std::collections::BTreeMap;
use std::collections::HashSet;
use std::hash::Hash;
use std::hash::Hasher;
use std::panic::AssertUnwindSafe;
use std::rc::Rc;
use std::sync::Condvar;
use std::sync::Mutex;
use std::sync::atomic::AtomicBool;
use std::sync::atomic::AtomicU64;
use std::sync::atomic::Ordering;
use std::time::Duration;
use std::time::Instant;

#[derive(Clone, Debug)]
pub struct Point {
  pub label: &'static str,
  pub arity: u32,
  pub pick: u32,
  /// 1 when a non-default pick counts as a deviation, 0 for "shape" choices
  /// that are always enumerated completely.
  pub cost: u8,
}

pub struct Chooser {
  prefix: Vec<u32>,
  pub trace: Vec<Point>,
  pub describe: bool,
}

#[derive(Clone)]
pub struct Ch(Rc<RefCell<Chooser>>);

pub struct MachineryError(pub String);

impl Ch {
  pub fn new(prefix: Vec<u32>, describe: bool) -> Self {
    Ch(Rc::new(RefCell::new(Chooser {
      prefix,
      trace: Vec::new(),
      describe,
    })))
  }
  fn choose_inner(&self, label: &'static str, n: usize, cost: u8) -> usize {
    assert!(n >= 1, "choose({label}) with empty alphabet");
    if n == 1 {
      return 0;
    }
    let mut c = self.0.borrow_mut();
    let pos = c.trace.len();
    let pick = if pos < c.prefix.len() { c.prefix[pos] } else { 0 };
    if pick as usize >= n {
      // replay divergence: hard machinery error, never a verdict
      std::panic::panic_any(MachineryError(format!(
        "replay divergence at point {pos} ({label}): pick {pick} >= arity {n}"
      )));
    }
    c.trace.push(Point {
      label,
      arity: n as u32,
      pick,
      cost,
    });
    pick as usize
  }
  /// A choice whose non-default picks count as deviations.
  pub fn choose(&self, label: &'static str, n: usize) -> usize {
    self.choose_inner(label, n, 1)
  }
  /// A choice that is always enumerated completely (cost 0).
  pub fn shape(&self, label: &'static str, n: usize) -> usize {
    self.choose_inner(label, n, 0)
  }
  pub fn flag(&self, label: &'static str) -> bool {
    self.shape(label, 2) == 1
  }
  pub fn pick<'a, T>(&self, label: &'static str, items: &'a [T]) -> &'a T {
    &items[self.shape(label, items.len())]
  }
  /// Lehmer-coded permutation of 0..n (shape cost).
  pub fn permutation(&self, label: &'static str, n: usize, cost: bool) -> Vec<usize> {
    let mut rest: Vec<usize> = (0..n).collect();
    let mut out = Vec::with_capacity(n);
    while !rest.is_empty() {
      let k = if cost {
        self.choose(label, rest.len())
      } else {
        self.shape(label, rest.len())
      };
      out.push(rest.remove(k));
    }
    out
  }
  pub fn describe(&self) -> bool {
    self.0.borrow().describe
  }
  pub fn trace(&self) -> Vec<Point> {
    self.0.borrow().trace.clone()
  }
  pub fn picks(&self) -> Vec<u32> {
    self.0.borrow().trace.iter().map(|p| p.pick).collect()
  }
}

#[derive(Clone, Debug)]
pub struct Violation {
  /// Names the failing call site / input class; matched against the
  /// known-findings file.
  pub signature: String,
  pub message: String,
  pub detail: Value,
}

#[derive(Default)]
pub struct Run {
  pub state_key: u64,
  pub nontrivial: bool,
  pub outcome_key: u64,
  pub evals: u64,
  pub violations: Vec<Violation>,
  pub sample: Option<Value>,
  /// extra state keys covered inside this run (bodies that loop internally)
  pub extra_states: Vec<(u64, bool)>,
  /// free-form counters merged by name
  pub counters: Vec<(&'static str, u64)>,
}

impl Run {
  pub fn violate(&mut self, signature: impl Into<String>, message: impl Into<String>, detail: Value) {
    self.violations.push(Violation {
      signature: signature.into(),
      message: message.into(),
      detail,
    });
  }
  pub fn count(&mut self, name: &'static str, n: u64) {
    self.counters.push((name, n));
  }
}

pub fn hash_of<T: Hash + ?Sized>(t: &T) -> u64 {
  // fixed-key hasher: stable across runs and threads
  #[allow(deprecated)]
  let mut h = std::hash::SipHasher::new_with_keys(0x6467_6d63, 0x7665_7269);
  t.hash(&mut h);
  h.finish()
}

pub fn hash_json(v: &Value) -> u64 {
  hash_of(&v.to_string())
}

#[derive(Clone, Copy, Debug, PartialEq)]
pub enum Mode {
  Full,
  Deviations(u32),
}

pub struct ExploreCfg {
  pub mode: Mode,
  pub threads: usize,
  pub wall_cap: Duration,
  pub run_cap: u64,
  /// per-run wall budget; exceeding it is reported through the watchdog
  pub run_budget: Duration,
}

#[derive(Default)]
pub struct Stats {
  pub runs: u64,
  pub evals: u64,
  pub states: HashSet<u64>,
  pub nontrivial: HashSet<u64>,
  pub outcomes: HashSet<u64>,
  pub samples: Vec<Value>,
  pub violations: Vec<(Vec<u32>, Violation)>,
  pub capped: Option<String>,
  pub max_points: usize,
  pub max_arity: u32,
  pub counters: BTreeMap<&'static str, u64>,
  pub machinery: Option<String>,
  pub max_deviations_seen: u32,
}

impl Stats {
  fn merge(&mut self, o: Stats) {
    self.runs += o.runs;
    self.evals += o.evals;
    self.states.extend(o.states);
    self.nontrivial.extend(o.nontrivial);
    self.outcomes.extend(o.outcomes);
    self.samples.extend(o.samples);
    self.violations.extend(o.violations);
    if self.capped.is_none() {
      self.capped = o.capped;
    }
    self.max_points = self.max_points.max(o.max_points);
    self.max_arity = self.max_arity.max(o.max_arity);
    for (k, v) in o.counters {
      *self.counters.entry(k).or_default() += v;
    }
    if self.machinery.is_none() {
      self.machinery = o.machinery;
    }
    self.max_deviations_seen = self.max_deviations_seen.max(o.max_deviations_seen);
  }
}

thread_local! {
  static LAST_PANIC: RefCell<Option<(String, String)>> = const { RefCell::new(None) };
}

pub fn install_panic_hook() {
  std::panic::set_hook(Box::new(|info| {
    let loc = info
      .location()
      .map(|l| format!("{}:{}", l.file(), l.line()))
      .unwrap_or_else(|| "?".into());
    let msg = if let Some(s) = info.payload().downcast_ref::<&str>() {
      s.to_string()
    } else if let Some(s) = info.payload().downcast_ref::<String>() {
      s.clone()
    } else if let Some(m) = info.payload().downcast_ref::<MachineryError>() {
      format!("MACHINERY: {}", m.0)
    } else {
      "<non-string panic>".to_string()
    };
    LAST_PANIC.with(|p| *p.borrow_mut() = Some((loc, msg)));
  }));
}

pub enum RunResult {
  Done(Run, Vec<Point>),
  Machinery(String),
}

/// Executes one run of `body` under `prefix`, catching panics. A panic whose
/// location lies in the harness is a machinery error; a panic inside the
/// subject (or its dependencies) is a violation with signature
/// `panic@<file>:<line>`.
pub fn run_once<F: Fn(&Ch) -> Run>(body: &F, prefix: &[u32], describe: bool) -> RunResult {
  let ch = Ch::new(prefix.to_vec(), describe);
  LAST_PANIC.with(|p| *p.borrow_mut() = None);
  let r = std::panic::catch_unwind(AssertUnwindSafe(|| body(&ch)));
  // clear any hook state a panicking run may have left behind
  deno_graph::verif_hooks::set_drain_order_callback(None);
  match r {
    Ok(run) => {
      let trace = ch.trace();
      if trace.len() < prefix.len() {
        return RunResult::Machinery(format!(
          "replay divergence: prefix has {} picks, run consumed {}",
          prefix.len(),
          trace.len()
        ));
      }
      RunResult::Done(run, trace)
    }
    Err(payload) => {
      if let Some(m) = payload.downcast_ref::<MachineryError>() {
        return RunResult::Machinery(m.0.clone());
      }
      let (loc, msg) = LAST_PANIC
        .with(|p| p.borrow_mut().take())
        .unwrap_or_else(|| ("?".into(), "?".into()));
      if loc.contains("/verif/harness/") || loc.starts_with("src/") {
        return RunResult::Machinery(format!("harness panic at {loc}: {msg}"));
      }
      let short = shorten_loc(&loc);
      let mut run = Run::default();
      run.state_key = hash_of(prefix);
      run.outcome_key = hash_of(&short);
      run.evals = 1;
      run.violate(
        format!("panic@{short}"),
        format!("subject panicked at {loc}: {msg}"),
        json!({"location": loc, "message": msg}),
      );
      RunResult::Done(run, ch.trace())
    }
  }
}

fn shorten_loc(loc: &str) -> String {
  // /repo/src/graph.rs:5072 -> graph.rs:5072 is line-fragile; keep file only
  // plus the line so that a *different* panic site is a different signature.
  let l = loc.rsplit('/').next().unwrap_or(loc);
  l.to_string()
}

/// A pending child run: `picks[..at] ++ [alt]`, materialised only when popped.
struct Job {
  parent: std::sync::Arc<Vec<u32>>,
  at: u32,
  alt: u32,
}

impl Job {
  fn prefix(&self) -> Vec<u32> {
    let mut p = Vec::with_capacity(self.at as usize + 1);
    p.extend_from_slice(&self.parent[..self.at as usize]);
    if self.alt != u32::MAX {
      p.push(self.alt);
    }
    p
  }
}

struct Shared {
  /// (donated work, number of workers that currently hold work)
  stack: Mutex<(Vec<Job>, usize)>,
  cv: Condvar,
  stop: AtomicBool,
  runs: AtomicU64,
  hungry: std::sync::atomic::AtomicUsize,
}

pub type WatchSlot = std::sync::Arc<Mutex<Option<(Instant, Vec<u32>)>>>;
pub static WATCH: Mutex<Vec<WatchSlot>> = Mutex::new(Vec::new());

fn deviations(trace: &[Point], upto: usize) -> u32 {
  trace[..upto]
    .iter()
    .filter(|p| p.pick != 0 && p.cost > 0)
    .count() as u32
}

pub fn explore<F: Fn(&Ch) -> Run + Sync>(body: &F, cfg: &ExploreCfg) -> Stats {
  let start = Instant::now();
  let threads = cfg.threads.max(1);
  let shared = Shared {
    stack: Mutex::new((
      vec![Job {
        parent: std::sync::Arc::new(vec![]),
        at: 0,
        alt: u32::MAX,
      }],
      0,
    )),
    cv: Condvar::new(),
    stop: AtomicBool::new(false),
    runs: AtomicU64::new(0),
    hungry: std::sync::atomic::AtomicUsize::new(0),
  };
  let slots: Vec<WatchSlot> = (0..threads).map(|_| Default::default()).collect();
  *WATCH.lock().unwrap() = slots.clone();
  let mut total = Stats::default();
  std::thread::scope(|s| {
    let mut handles = Vec::new();
    for tid in 0..threads {
      let shared = &shared;
      let slot = slots[tid].clone();
      handles.push(
        std::thread::Builder::new()
          .stack_size(256 << 20)
          .spawn_scoped(s, move || {
            let mut st = Stats::default();
            let mut sig_counts: std::collections::HashMap<String, usize> = Default::default();
            // depth-first on a private stack; work is donated to the shared
            // stack only when some worker is idle
            let mut local: Vec<Job> = Vec::new();
            loop {
              if local.is_empty() {
                let mut g = shared.stack.lock().unwrap();
                shared.hungry.fetch_add(1, Ordering::Relaxed);
                let got = loop {
                  if shared.stop.load(Ordering::Relaxed) {
                    break None;
                  }
                  if let Some(j) = g.0.pop() {
                    g.1 += 1;
                    break Some(j);
                  }
                  if g.1 == 0 {
                    break None;
                  }
                  g = shared.cv.wait(g).unwrap();
                };
                shared.hungry.fetch_sub(1, Ordering::Relaxed);
                drop(g);
                match got {
                  Some(j) => local.push(j),
                  None => {
                    shared.cv.notify_all();
                    break;
                  }
                }
              }
              let prefix = local.pop().unwrap().prefix();
              let idx = shared.runs.fetch_add(1, Ordering::Relaxed);
              if idx >= cfg.run_cap {
                st.capped = Some(format!("run cap {} reached", cfg.run_cap));
                shared.stop.store(true, Ordering::Relaxed);
              } else if idx % 64 == 0 && start.elapsed() > cfg.wall_cap {
                st.capped = Some(format!("wall cap {:?} reached", cfg.wall_cap));
                shared.stop.store(true, Ordering::Relaxed);
              }
              if shared.stop.load(Ordering::Relaxed) {
                local.clear();
                let mut g = shared.stack.lock().unwrap();
                g.1 -= 1;
                drop(g);
                shared.cv.notify_all();
                break;
              }
              *slot.lock().unwrap() = Some((Instant::now(), prefix.clone()));
              // written-out samples: the base case plus cases deeper in the exploration
              let describe = idx == 0 || idx == 997 || idx == 99_991 || idx == 2_999_999;
              let res = run_once(body, &prefix, describe);
              *slot.lock().unwrap() = None;
              match res {
                RunResult::Machinery(m) => {
                  st.machinery = Some(format!("{m} (prefix {prefix:?})"));
                  shared.stop.store(true, Ordering::Relaxed);
                }
                RunResult::Done(run, trace) => {
                  st.runs += 1;
                  st.evals += run.evals.max(1);
                  st.states.insert(run.state_key);
                  if run.nontrivial {
                    st.nontrivial.insert(run.state_key);
                  }
                  for (k, nt) in run.extra_states {
                    st.states.insert(k);
                    if nt {
                      st.nontrivial.insert(k);
                    }
                  }
                  st.outcomes.insert(run.outcome_key);
                  for (k, v) in run.counters {
                    *st.counters.entry(k).or_default() += v;
                  }
                  if let Some(s) = run.sample
                    && st.samples.len() < 3
                  {
                    st.samples.push(s);
                  }
                  st.max_points = st.max_points.max(trace.len());
                  let picks: Vec<u32> = trace.iter().map(|p| p.pick).collect();
                  let shared_picks = std::sync::Arc::new(picks.clone());
                  for v in run.violations {
                    // keep a few witnesses per *signature* so that frequent
                    // (e.g. known) signatures cannot crowd out rare ones
                    let c = sig_counts.entry(v.signature.clone()).or_insert(0usize);
                    if *c < 3 {
                      *c += 1;
                      st.violations.push((picks.clone(), v));
                    }
                  }
                  st.max_deviations_seen =
                    st.max_deviations_seen.max(deviations(&trace, trace.len()));
                  // children in reverse so that the smallest is popped first
                  let first_child = local.len();
                  for i in prefix.len()..trace.len() {
                    st.max_arity = st.max_arity.max(trace[i].arity);
                    let base = deviations(&trace, i);
                    let allowed = match cfg.mode {
                      Mode::Full => true,
                      Mode::Deviations(d) => trace[i].cost == 0 || base + 1 <= d,
                    };
                    if !allowed {
                      continue;
                    }
                    for alt in 1..trace[i].arity {
                      local.push(Job {
                        parent: shared_picks.clone(),
                        at: i as u32,
                        alt,
                      });
                    }
                  }
                  local[first_child..].reverse();
                }
              }
              // donate the older half when somebody is waiting
              if local.len() > 1 && shared.hungry.load(Ordering::Relaxed) > 0 {
                let mut g = shared.stack.lock().unwrap();
                let give = local.len() / 2;
                g.0.extend(local.drain(..give));
                drop(g);
                shared.cv.notify_all();
              }
              if local.is_empty() {
                let mut g = shared.stack.lock().unwrap();
                g.1 -= 1;
                drop(g);
                shared.cv.notify_all();
              }
            }
            st
          })
          .unwrap(),
      );
    }
    for h in handles {
      match h.join() {
        Ok(st) => total.merge(st),
        Err(_) => total.machinery = Some("worker thread died".into()),
      }
    }
  });
  total.violations.sort_by(|a, b| a.0.cmp(&b.0));
  total
}

pub fn default_threads() -> usize {
  std::env::var("DGMC_THREADS")
    .ok()
    .and_then(|s| s.parse().ok())
    .unwrap_or_else(|| {
      std::thread::available_parallelism()
        .map(|n| n.get())
        .unwrap_or(4)
        .min(16)
    })
}
