//! The harness-owned environment: scripted loader with gated futures, the
//! cooperative driver that decides which outstanding operation completes
//! next, recording locker, executors, npm resolver, resolver.

use crate::engine::Ch;
use deno_graph::ModuleSpecifier;
use deno_graph::source::*;
use deno_semver::package::PackageNv;
use futures::FutureExt;
use std::cell::Cell;
use std::cell::RefCell;
use std::collections::BTreeMap;
use std::collections::HashMap;
use std::future::Future;
use std::pin::Pin;
use std::rc::Rc;
use std::sync::Arc;
use std::sync::atomic::AtomicBool;
use std::sync::atomic::Ordering;
use std::task::Context;
use std::task::Poll;
use std::task::Wake;
use std::task::Waker;

// ---------------------------------------------------------------- scheduler

struct GateInner {
  released: Cell<bool>,
  /// extra Pending answers (with self-wake) after the release
  extra_suspensions: Cell<u32>,
  waker: RefCell<Option<Waker>>,
  label: String,
  /// the label without the call counter ("load#7 https://x/a.ts" -> "https://x/a.ts load")
  sort_key: String,
  /// number of driver decisions taken before this gate was created
  epoch: u64,
}

struct TaskSlot {
  fut: RefCell<Option<Pin<Box<dyn Future<Output = ()> + 'static>>>>,
  woken: Arc<FlagWaker>,
  done: Cell<bool>,
  handle_waker: RefCell<Option<Waker>>,
}

pub struct FlagWaker(pub AtomicBool);
impl Wake for FlagWaker {
  fn wake(self: Arc<Self>) {
    self.0.store(true, Ordering::SeqCst);
  }
  fn wake_by_ref(self: &Arc<Self>) {
    self.0.store(true, Ordering::SeqCst);
  }
}

#[derive(Clone, Copy, PartialEq, Debug)]
pub enum SchedMode {
  /// every operation completes immediately (the schedule of the pinned tests)
  Immediate,
  /// every operation stays pending until the driver releases it
  Gated,
}

pub struct Sched {
  pub mode: SchedMode,
  gates: RefCell<Vec<Rc<GateInner>>>,
  tasks: RefCell<Vec<Rc<TaskSlot>>>,
  pub events: RefCell<Vec<String>>,
  /// extra suspensions injected before a released gate reports Ready
  pub max_outstanding: Cell<usize>,
  /// when set, the driver may make a released future suspend once more
  pub allow_suspensions: Cell<bool>,
  epoch: Cell<u64>,
}

impl Sched {
  pub fn new(mode: SchedMode) -> Rc<Self> {
    Rc::new(Sched {
      mode,
      gates: Default::default(),
      tasks: Default::default(),
      events: Default::default(),
      max_outstanding: Cell::new(0),
      allow_suspensions: Cell::new(false),
      epoch: Cell::new(0),
    })
  }

  /// Wraps a value in a future that completes when the driver says so.
  pub fn gate<T: 'static>(
    self: &Rc<Self>,
    label: String,
    value: T,
  ) -> Pin<Box<dyn Future<Output = T>>> {
    if self.mode == SchedMode::Immediate {
      return Box::pin(futures::future::ready(value));
    }
    let inner = Rc::new(GateInner {
      released: Cell::new(false),
      extra_suspensions: Cell::new(0),
      waker: RefCell::new(None),
      sort_key: match label.split_once(' ') {
        Some((kind, rest)) => format!("{rest} {}", kind.split('#').next().unwrap_or(kind)),
        None => label.clone(),
      },
      label,
      epoch: self.epoch.get(),
    });
    self.gates.borrow_mut().push(inner.clone());
    Box::pin(GateFut {
      inner,
      value: Some(value),
    })
  }

  /// Outstanding operations in canonical order: by creation, except that
  /// operations issued within one poll of the build future (between two
  /// driver decisions) are ordered by label. The subject issues some batches
  /// in hash-map iteration order (the cache-only probes of candidate versions),
  /// which must not decide what a choice index means.
  fn outstanding_gates(&self) -> Vec<usize> {
    let gates = self.gates.borrow();
    let mut v: Vec<usize> = gates
      .iter()
      .enumerate()
      .filter(|(_, g)| !g.released.get())
      .map(|(i, _)| i)
      .collect();
    v.sort_by(|a, b| (gates[*a].epoch, &gates[*a].sort_key, *a).cmp(&(gates[*b].epoch, &gates[*b].sort_key, *b)));
    v
  }

  fn runnable_tasks(&self) -> Vec<usize> {
    self
      .tasks
      .borrow()
      .iter()
      .enumerate()
      .filter(|(_, t)| !t.done.get() && t.woken.0.load(Ordering::SeqCst))
      .map(|(i, _)| i)
      .collect()
  }

  fn release(&self, i: usize, extra: u32) {
    let g = self.gates.borrow()[i].clone();
    g.released.set(true);
    g.extra_suspensions.set(extra);
    self.events.borrow_mut().push(format!("complete {}", g.label));
    if let Some(w) = g.waker.borrow_mut().take() {
      w.wake();
    }
  }

  fn poll_task(&self, i: usize) {
    let t = self.tasks.borrow()[i].clone();
    t.woken.0.store(false, Ordering::SeqCst);
    let waker = Waker::from(t.woken.clone());
    let mut cx = Context::from_waker(&waker);
    let mut slot = t.fut.borrow_mut();
    if let Some(f) = slot.as_mut() {
      self.events.borrow_mut().push(format!("poll task {i}"));
      if f.as_mut().poll(&mut cx).is_ready() {
        *slot = None;
        t.done.set(true);
        if let Some(w) = t.handle_waker.borrow_mut().take() {
          w.wake();
        }
      }
    }
  }
}

struct GateFut<T> {
  inner: Rc<GateInner>,
  value: Option<T>,
}
impl<T> Unpin for GateFut<T> {}
impl<T> Future for GateFut<T> {
  type Output = T;
  fn poll(mut self: Pin<&mut Self>, cx: &mut Context<'_>) -> Poll<T> {
    if self.inner.released.get() {
      let extra = self.inner.extra_suspensions.get();
      if extra > 0 {
        // a suspension of an operation that is already complete
        self.inner.extra_suspensions.set(extra - 1);
        cx.waker().wake_by_ref();
        return Poll::Pending;
      }
      Poll::Ready(self.value.take().expect("gate polled after completion"))
    } else {
      *self.inner.waker.borrow_mut() = Some(cx.waker().clone());
      Poll::Pending
    }
  }
}

#[derive(Debug, PartialEq)]
pub enum DriveError {
  /// root future pending, nothing outstanding, nobody woke it
  Deadlock,
  Horizon,
}

/// Polls `fut` to completion. Whenever it is pending, the chooser decides
/// which outstanding gated operation completes next (or which queued task is
/// polled next). With `SchedMode::Immediate` there is nothing to decide.
pub fn drive<T>(
  fut: impl Future<Output = T>,
  sched: &Rc<Sched>,
  ch: &Ch,
  sched_cost: bool,
) -> Result<T, DriveError> {
  let mut fut = std::pin::pin!(fut);
  let root_flag = Arc::new(FlagWaker(AtomicBool::new(true)));
  let waker = Waker::from(root_flag.clone());
  let mut cx = Context::from_waker(&waker);
  let mut steps = 0usize;
  loop {
    steps += 1;
    if steps > 200_000 {
      return Err(DriveError::Horizon);
    }
    root_flag.0.store(false, Ordering::SeqCst);
    if let Poll::Ready(v) = fut.as_mut().poll(&mut cx) {
      return Ok(v);
    }
    let gates = sched.outstanding_gates();
    let tasks = sched.runnable_tasks();
    sched.epoch.set(sched.epoch.get() + 1);
    sched
      .max_outstanding
      .set(sched.max_outstanding.get().max(gates.len() + tasks.len()));
    let n = gates.len() + tasks.len();
    if n == 0 {
      if root_flag.0.load(Ordering::SeqCst) {
        continue; // self-wake (cooperative yield)
      }
      return Err(DriveError::Deadlock);
    }
    let k = if sched_cost {
      ch.choose("sched", n)
    } else {
      ch.shape("sched", n)
    };
    if k < gates.len() {
      let extra = if sched.allow_suspensions.get() { ch.choose("extra_suspension", 3) as u32 } else { 0 };
      sched.release(gates[k], extra);
    } else {
      sched.poll_task(tasks[k - gates.len()]);
    }
  }
}

// ---------------------------------------------------------------- executor

/// `Inline`: the returned future *is* the task (what the wasm build does).
pub struct InlineExecutor;
unsafe impl Sync for InlineExecutor {}
impl deno_graph::Executor for InlineExecutor {
  fn execute(
    &self,
    fut: Pin<Box<dyn Future<Output = ()> + 'static>>,
  ) -> Pin<Box<dyn Future<Output = ()> + 'static>> {
    fut
  }
}

/// `Queued`: the task is parked with the scheduler; polling it is a
/// scheduling choice of the driver.
pub struct QueuedExecutor(pub Rc<Sched>);
impl deno_graph::Executor for QueuedExecutor {
  fn execute(
    &self,
    fut: Pin<Box<dyn Future<Output = ()> + 'static>>,
  ) -> Pin<Box<dyn Future<Output = ()> + 'static>> {
    let slot = Rc::new(TaskSlot {
      fut: RefCell::new(Some(fut)),
      woken: Arc::new(FlagWaker(AtomicBool::new(true))),
      done: Cell::new(false),
      handle_waker: RefCell::new(None),
    });
    self.0.tasks.borrow_mut().push(slot.clone());
    Box::pin(TaskHandle(slot))
  }
}
struct TaskHandle(Rc<TaskSlot>);
impl Future for TaskHandle {
  type Output = ();
  fn poll(self: Pin<&mut Self>, cx: &mut Context<'_>) -> Poll<()> {
    if self.0.done.get() {
      Poll::Ready(())
    } else {
      *self.0.handle_waker.borrow_mut() = Some(cx.waker().clone());
      Poll::Pending
    }
  }
}

// ---------------------------------------------------------------- loader

#[derive(Clone, Debug)]
pub enum Entry {
  Module {
    content: Arc<[u8]>,
    headers: Option<Vec<(String, String)>>,
    /// final specifier reported by the loader when different from the request
    final_specifier: Option<ModuleSpecifier>,
  },
  Redirect(ModuleSpecifier),
  External,
  Error(String),
}

impl Entry {
  pub fn text(s: &str) -> Entry {
    Entry::Module {
      content: Arc::from(s.as_bytes()),
      headers: None,
      final_specifier: None,
    }
  }
  pub fn bytes(b: &[u8]) -> Entry {
    Entry::Module {
      content: Arc::from(b),
      headers: None,
      final_specifier: None,
    }
  }
  pub fn with_headers(s: &[u8], headers: &[(&str, &str)]) -> Entry {
    Entry::Module {
      content: Arc::from(s),
      headers: Some(
        headers
          .iter()
          .map(|(a, b)| (a.to_string(), b.to_string()))
          .collect(),
      ),
      final_specifier: None,
    }
  }
}

#[derive(Clone, Debug)]
pub struct LoadCall {
  pub kind: &'static str, // "load" | "ensure_cached"
  pub specifier: ModuleSpecifier,
  pub cache_setting: CacheSetting,
  pub checksum: Option<String>,
  pub in_dynamic_branch: bool,
  pub was_dynamic_root: bool,
  /// what the loader answered, as a short tag
  pub answer: String,
}

#[derive(Debug)]
pub struct TestError(pub String);
impl std::fmt::Display for TestError {
  fn fmt(&self, f: &mut std::fmt::Formatter<'_>) -> std::fmt::Result {
    write!(f, "{}", self.0)
  }
}
impl std::error::Error for TestError {}
impl deno_error::JsErrorClass for TestError {
  fn get_class(&self) -> std::borrow::Cow<'static, str> {
    "Error".into()
  }
  fn get_message(&self) -> std::borrow::Cow<'static, str> {
    self.0.clone().into()
  }
  fn get_additional_properties(&self) -> deno_error::AdditionalProperties {
    Box::new(std::iter::empty())
  }
  fn get_ref(&self) -> &(dyn std::error::Error + Send + Sync + 'static) {
    self
  }
}

pub fn other_err(msg: &str) -> LoadError {
  LoadError::Other(Arc::new(TestError(msg.to_string())))
}

/// What a fault injector may substitute for the honest answer of one call.
pub enum Answer {
  Honest,
  Load(LoadResult),
  Cache(EnsureCachedResult),
}

pub type Injector = Box<dyn Fn(&LoadCall, usize) -> Answer>;

pub struct ScriptedLoader {
  pub files: RefCell<BTreeMap<ModuleSpecifier, Entry>>,
  pub log: RefCell<Vec<LoadCall>>,
  pub sched: Rc<Sched>,
  /// when true, a presented checksum is verified against the served bytes
  /// (what a real cache does with `check_source`)
  pub verify_checksums: bool,
  /// specifiers that a `CacheSetting::Only` probe finds (None = everything
  /// present is "cached")
  pub cached_only: RefCell<Option<std::collections::BTreeSet<ModuleSpecifier>>>,
  pub injector: RefCell<Option<Injector>>,
  pub max_redirects: usize,
  /// implement ensure_cached natively (otherwise the trait default = load)
  pub native_ensure_cached: bool,
}

impl ScriptedLoader {
  pub fn new(sched: Rc<Sched>) -> Self {
    ScriptedLoader {
      files: Default::default(),
      log: Default::default(),
      sched,
      verify_checksums: true,
      cached_only: RefCell::new(None),
      injector: RefCell::new(None),
      max_redirects: 10,
      native_ensure_cached: true,
    }
  }
  pub fn add(&self, specifier: &str, entry: Entry) {
    self
      .files
      .borrow_mut()
      .insert(ModuleSpecifier::parse(specifier).unwrap(), entry);
  }
  pub fn add_text(&self, specifier: &str, text: &str) {
    self.add(specifier, Entry::text(text));
  }

  fn honest_load(&self, specifier: &ModuleSpecifier, options: &LoadOptions) -> LoadResult {
    let files = self.files.borrow();
    if options.cache_setting == CacheSetting::Only
      && let Some(set) = &*self.cached_only.borrow()
      && !set.contains(specifier)
    {
      return Ok(None);
    }
    match files.get(specifier) {
      Some(Entry::Module {
        content,
        headers,
        final_specifier,
      }) => {
        if self.verify_checksums
          && let Some(c) = &options.maybe_checksum
        {
          c.check_source(content)?;
        }
        Ok(Some(LoadResponse::Module {
          content: content.clone(),
          mtime: None,
          specifier: final_specifier.clone().unwrap_or_else(|| specifier.clone()),
          maybe_headers: headers
            .as_ref()
            .map(|h| h.iter().cloned().collect::<HashMap<_, _>>()),
        }))
      }
      Some(Entry::Redirect(to)) => Ok(Some(LoadResponse::Redirect {
        specifier: to.clone(),
      })),
      Some(Entry::External) => Ok(Some(LoadResponse::External {
        specifier: specifier.clone(),
      })),
      Some(Entry::Error(msg)) => Err(other_err(msg)),
      None if specifier.scheme() == "data" => {
        load_data_url(specifier).map_err(|e| LoadError::Other(Arc::new(e)))
      }
      None => Ok(None),
    }
  }
}

pub fn tag_load(r: &LoadResult) -> String {
  match r {
    Ok(None) => "not-found".into(),
    Ok(Some(LoadResponse::Module { specifier, .. })) => format!("module {specifier}"),
    Ok(Some(LoadResponse::Redirect { specifier })) => format!("redirect {specifier}"),
    Ok(Some(LoadResponse::External { specifier })) => format!("external {specifier}"),
    Err(LoadError::ChecksumIntegrity(_)) => "checksum-error".into(),
    Err(LoadError::Other(e)) => format!("error {}", e.get_message()),
  }
}

impl Loader for ScriptedLoader {
  fn max_redirects(&self) -> usize {
    self.max_redirects
  }

  fn load(&self, specifier: &ModuleSpecifier, options: LoadOptions) -> LoadFuture {
    let mut call = LoadCall {
      kind: "load",
      specifier: specifier.clone(),
      cache_setting: options.cache_setting,
      checksum: options.maybe_checksum.as_ref().map(|c| c.as_str().to_string()),
      in_dynamic_branch: options.in_dynamic_branch,
      was_dynamic_root: options.was_dynamic_root,
      answer: String::new(),
    };
    let idx = self.log.borrow().len();
    let injected = self
      .injector
      .borrow()
      .as_ref()
      .map(|f| f(&call, idx))
      .unwrap_or(Answer::Honest);
    let result = match injected {
      Answer::Load(r) => r,
      _ => self.honest_load(specifier, &options),
    };
    call.answer = tag_load(&result);
    self.log.borrow_mut().push(call);
    let label = format!("load#{idx} {specifier}");
    self.sched.gate(label, result).boxed_local()
  }

  fn ensure_cached(
    &self,
    specifier: &ModuleSpecifier,
    options: LoadOptions,
  ) -> EnsureCachedFuture {
    let mut call = LoadCall {
      kind: "ensure_cached",
      specifier: specifier.clone(),
      cache_setting: options.cache_setting,
      checksum: options.maybe_checksum.as_ref().map(|c| c.as_str().to_string()),
      in_dynamic_branch: options.in_dynamic_branch,
      was_dynamic_root: options.was_dynamic_root,
      answer: String::new(),
    };
    let idx = self.log.borrow().len();
    let injected = self
      .injector
      .borrow()
      .as_ref()
      .map(|f| f(&call, idx))
      .unwrap_or(Answer::Honest);
    let result: EnsureCachedResult = match injected {
      Answer::Cache(r) => r,
      Answer::Load(r) => r.map(|o| {
        o.map(|r| match r {
          LoadResponse::Redirect { specifier } => CacheResponse::Redirect { specifier },
          _ => CacheResponse::Cached,
        })
      }),
      Answer::Honest => self.honest_load(specifier, &options).map(|o| {
        o.map(|r| match r {
          LoadResponse::Redirect { specifier } => CacheResponse::Redirect { specifier },
          _ => CacheResponse::Cached,
        })
      }),
    };
    call.answer = match &result {
      Ok(None) => "not-found".into(),
      Ok(Some(CacheResponse::Cached)) => "cached".into(),
      Ok(Some(CacheResponse::Redirect { specifier })) => format!("redirect {specifier}"),
      Err(LoadError::ChecksumIntegrity(_)) => "checksum-error".into(),
      Err(LoadError::Other(e)) => format!("error {}", e.get_message()),
    };
    self.log.borrow_mut().push(call);
    let label = format!("ensure_cached#{idx} {specifier}");
    self.sched.gate(label, result).boxed_local()
  }
}

// ---------------------------------------------------------------- locker

#[derive(Default, Clone, Debug)]
pub struct RecordingLocker {
  pub remote: BTreeMap<ModuleSpecifier, String>,
  pub manifests: BTreeMap<String, String>,
  pub log: Rc<RefCell<Vec<String>>>,
}

impl Locker for RecordingLocker {
  fn get_remote_checksum(&self, specifier: &ModuleSpecifier) -> Option<LoaderChecksum> {
    self
      .remote
      .get(specifier)
      .map(|s| LoaderChecksum::new(s.clone()))
  }
  fn has_remote_checksum(&self, specifier: &ModuleSpecifier) -> bool {
    self.remote.contains_key(specifier)
  }
  fn set_remote_checksum(&mut self, specifier: &ModuleSpecifier, checksum: LoaderChecksum) {
    self
      .log
      .borrow_mut()
      .push(format!("set_remote {specifier} {}", checksum.as_str()));
    self
      .remote
      .insert(specifier.clone(), checksum.into_string());
  }
  fn get_pkg_manifest_checksum(&self, nv: &PackageNv) -> Option<LoaderChecksum> {
    self
      .manifests
      .get(&nv.to_string())
      .map(|s| LoaderChecksum::new(s.clone()))
  }
  fn set_pkg_manifest_checksum(&mut self, nv: &PackageNv, checksum: LoaderChecksum) {
    self
      .log
      .borrow_mut()
      .push(format!("set_manifest {nv} {}", checksum.as_str()));
    self.manifests.insert(nv.to_string(), checksum.into_string());
  }
}

// ---------------------------------------------------------------- npm resolver

#[derive(Debug, Default)]
pub struct ScriptedNpmResolver {
  /// package names whose requirement fails to resolve
  pub failing: Vec<String>,
  pub dep_graph_error: bool,
  pub log: RefCell<Vec<String>>,
}

#[async_trait::async_trait(?Send)]
impl NpmResolver for ScriptedNpmResolver {
  fn load_and_cache_npm_package_info(&self, package_name: &str) {
    self.log.borrow_mut().push(format!("preload {package_name}"));
  }
  async fn resolve_pkg_reqs(
    &self,
    package_reqs: &[deno_semver::package::PackageReq],
  ) -> NpmResolvePkgReqsResult {
    let mut any_fail = false;
    let results = package_reqs
      .iter()
      .map(|r| {
        self.log.borrow_mut().push(format!("resolve {r}"));
        if self.failing.iter().any(|f| f == r.name.as_str()) {
          any_fail = true;
          Err(deno_graph::NpmLoadError::PackageReqResolution(Arc::new(
            TestError(format!("npm package not found: {r}")),
          )))
        } else {
          Ok(())
        }
      })
      .collect();
    NpmResolvePkgReqsResult {
      results,
      dep_graph_result: if self.dep_graph_error && !any_fail {
        Err(Arc::new(TestError("npm dep graph failed".into())))
      } else {
        Ok(())
      },
    }
  }
}

// ---------------------------------------------------------------- resolver

/// Bare-specifier map + optional `resolve_types` table + jsx defaults.
#[derive(Debug, Default)]
pub struct MapResolver {
  pub bare: BTreeMap<String, String>,
  pub types: BTreeMap<ModuleSpecifier, ModuleSpecifier>,
  pub jsx_import_source: Option<String>,
  pub jsx_import_source_types: Option<String>,
}

impl Resolver for MapResolver {
  fn default_jsx_import_source(&self, _referrer: &ModuleSpecifier) -> Option<String> {
    self.jsx_import_source.clone()
  }
  fn default_jsx_import_source_types(&self, _referrer: &ModuleSpecifier) -> Option<String> {
    self.jsx_import_source_types.clone()
  }
  fn resolve(
    &self,
    specifier_text: &str,
    referrer_range: &deno_graph::Range,
    _kind: ResolutionKind,
  ) -> Result<ModuleSpecifier, ResolveError> {
    if let Some(t) = self.bare.get(specifier_text) {
      return Ok(ModuleSpecifier::parse(t).unwrap());
    }
    Ok(deno_graph::resolve_import(
      specifier_text,
      &referrer_range.specifier,
    )?)
  }
  fn resolve_types(
    &self,
    specifier: &ModuleSpecifier,
  ) -> Result<Option<(ModuleSpecifier, Option<deno_graph::Range>)>, ResolveError> {
    Ok(self.types.get(specifier).map(|t| (t.clone(), None)))
  }
}

pub fn url(s: &str) -> ModuleSpecifier {
  ModuleSpecifier::parse(s).unwrap_or_else(|e| panic!("bad url {s}: {e}"))
}
