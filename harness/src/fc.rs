//! Shared fast-check harness: publish a generated package to a scripted JSR
//! registry, build the graph and run the real fast-check transform.

use crate::engine::Ch;
use crate::env::*;
use crate::obs::*;
use crate::registry::*;
use deno_graph::GraphKind;
use deno_graph::ModuleGraph;
use deno_graph::fast_check::FastCheckCache;
use deno_graph::fast_check::FastCheckCacheItem;
use deno_graph::fast_check::FastCheckCacheKey;
use serde_json::json;
use std::cell::RefCell;
use std::collections::BTreeMap;

#[derive(Clone, Debug)]
pub struct FcPackage {
  pub name: String,
  pub version: String,
  /// (path starting with '/', source)
  pub files: Vec<(String, String)>,
  /// (export name, "./path")
  pub exports: Vec<(String, String)>,
  /// a local workspace member (file: URLs, WorkspaceFastCheckOption::Enabled)
  /// instead of a package published to the registry
  pub workspace: bool,
}

impl FcPackage {
  pub fn url(&self, path: &str) -> String {
    if self.workspace {
      format!("file:///ws/{}{}", self.name.trim_start_matches('@').replace('/', "__"), path)
    } else {
      format!("https://jsr.io/{}/{}{}", self.name, self.version, path)
    }
  }
}

#[derive(Default)]
pub struct RecordingFcCache {
  pub items: RefCell<BTreeMap<u64, FastCheckCacheItem>>,
  pub log: RefCell<Vec<String>>,
}

impl FastCheckCache for RecordingFcCache {
  fn hash_seed(&self) -> &'static str {
    "dgmc"
  }
  fn get(&self, key: FastCheckCacheKey) -> Option<FastCheckCacheItem> {
    let r = self.items.borrow().get(&key.as_u64()).cloned();
    self.log.borrow_mut().push(format!("get {} -> {}", key.as_u64(), if r.is_some() { "hit" } else { "miss" }));
    r
  }
  fn set(&self, key: FastCheckCacheKey, value: FastCheckCacheItem) {
    self.log.borrow_mut().push(format!("set {} ({} modules)", key.as_u64(), value.modules.len()));
    self.items.borrow_mut().insert(key.as_u64(), value);
  }
}

#[derive(Clone, Debug, PartialEq)]
pub enum FcSlot {
  None,
  Module {
    text: String,
    source_map: String,
    deps: serde_json::Value,
  },
  Diagnostics(Vec<String>),
}

pub struct FcResult {
  pub graph: ModuleGraph,
  /// specifier -> (original source, fast check slot)
  pub modules: BTreeMap<String, (String, FcSlot)>,
  pub graph_errors: Vec<String>,
}

/// Publishes the packages, builds a graph rooted at a module importing every
/// export of the first package, and runs fast check.
pub fn fast_check(pkgs: &[FcPackage], cache: Option<&RecordingFcCache>, ch: &Ch) -> Option<FcResult> {
  fast_check_rooted(pkgs, 1, cache, ch)
}

/// `n_root_pkgs`: how many leading packages the root program imports directly.
pub fn fast_check_rooted(pkgs: &[FcPackage], n_root_pkgs: usize, cache: Option<&RecordingFcCache>, ch: &Ch) -> Option<FcResult> {
  let idx: Vec<usize> = (0..n_root_pkgs.min(pkgs.len())).collect();
  fast_check_roots(pkgs, &idx, cache, ch)
}

/// `root_pkgs`: indices of the packages the root program imports directly, in that order.
pub fn fast_check_roots(pkgs: &[FcPackage], root_pkgs: &[usize], cache: Option<&RecordingFcCache>, ch: &Ch) -> Option<FcResult> {
  fast_check_roots_kind(pkgs, root_pkgs, cache, ch, GraphKind::All)
}

/// Same, with the graph built as `kind` (fast check does nothing for CodeOnly).
pub fn fast_check_roots_kind(pkgs: &[FcPackage], root_pkgs: &[usize], cache: Option<&RecordingFcCache>, ch: &Ch, kind: GraphKind) -> Option<FcResult> {
  fast_check_steps(pkgs, root_pkgs, cache, ch, kind, false)
}

thread_local! {
  /// when set, the final fast-check pass is run twice on the same graph
  pub static REPEAT_FINAL_PASS: std::cell::Cell<bool> = const { std::cell::Cell::new(false) };
}

/// `two_steps`: root.ts imports only the first export of the first root
/// package; after build + fast check a second build on the same graph adds
/// root2.ts with all the other imports, and fast check runs again.
pub fn fast_check_steps(pkgs: &[FcPackage], root_pkgs: &[usize], cache: Option<&RecordingFcCache>, ch: &Ch, kind: GraphKind, two_steps: bool) -> Option<FcResult> {
  let sched = Sched::new(SchedMode::Immediate);
  let loader = ScriptedLoader::new(sched);
  let mut root = String::new();
  let mut roots = vec![url("https://x/root.ts")];
  let mut members: Vec<deno_graph::WorkspaceMember> = vec![];
  for p in pkgs.iter().filter(|p| p.workspace) {
    for (path, src) in &p.files {
      loader.add_text(&p.url(path), src);
    }
    for (_, e) in &p.exports {
      roots.push(url(&p.url(e.trim_start_matches('.'))));
    }
    members.push(deno_graph::WorkspaceMember {
      base: url(&p.url("/")),
      name: p.name.as_str().into(),
      version: Some(deno_semver::Version::parse_standard(&p.version).unwrap()),
      exports: p.exports.iter().cloned().collect(),
    });
  }
  let mut root2 = String::new();
  for p in root_pkgs.iter().map(|i| &pkgs[*i]).filter(|p| !p.workspace) {
    for (name, _) in &p.exports {
      let sub = if name == "." { "".to_string() } else { format!("/{}", name.trim_start_matches("./")) };
      let line = format!("import \"jsr:{}@{}{sub}\";\n", p.name, p.version);
      if two_steps && !root.is_empty() { root2.push_str(&line) } else { root.push_str(&line) }
    }
  }
  loader.add_text("https://x/root.ts", &root);
  loader.add_text("https://x/root2.ts", &root2);
  // workspace members: in two steps the first build takes only the first entrypoint
  let later_roots: Vec<deno_graph::ModuleSpecifier> = if two_steps && roots.len() > 2 { roots.split_off(2) } else { vec![] };
  for p in pkgs.iter().filter(|p| !p.workspace) {
    let mut v = RegVersion::new(&p.version, &[]);
    v.files = p.files.iter().map(|(a, b)| (a.clone(), b.as_bytes().to_vec())).collect();
    v.exports = serde_json::Value::Object(p.exports.iter().map(|(k, v)| (k.clone(), json!(v))).collect());
    RegPackage {
      name: p.name.clone(),
      versions: vec![v],
      raw_meta: None,
    }
    .install(&loader);
  }
  let analyzer = deno_graph::ast::CapturingModuleAnalyzer::default();
  let mut graph = ModuleGraph::new(kind);
  build_graph(
    &mut graph,
    roots.clone(),
    &loader,
    BuildCfg {
      module_analyzer: Some(&analyzer),
      ..Default::default()
    },
    ch,
  )
  .ok()?;
  let run_fast_check = |graph: &mut ModuleGraph| {
    graph.build_fast_check_type_graph(deno_graph::BuildFastCheckTypeGraphOptions {
      fast_check_cache: cache.map(|c| c as &dyn FastCheckCache),
      fast_check_dts: false,
      jsr_url_provider: Default::default(),
      es_parser: Some(&analyzer),
      resolver: None,
      workspace_fast_check: if members.is_empty() {
        deno_graph::WorkspaceFastCheckOption::Disabled
      } else {
        deno_graph::WorkspaceFastCheckOption::Enabled(&members)
      },
    });
  };
  if two_steps {
    run_fast_check(&mut graph);
    let mut second = vec![url("https://x/root2.ts")];
    second.extend(later_roots);
    build_graph(
      &mut graph,
      second,
      &loader,
      BuildCfg {
        module_analyzer: Some(&analyzer),
        ..Default::default()
      },
      ch,
    )
    .ok()?;
  }
  let graph_errors: Vec<String> = graph.module_errors().map(|e| e.to_string()).collect();
  run_fast_check(&mut graph);
  if REPEAT_FINAL_PASS.with(|r| r.get()) {
    run_fast_check(&mut graph);
  }
  let mut modules = BTreeMap::new();
  for p in pkgs {
    for (path, src) in &p.files {
      let u = p.url(path);
      let slot = match graph.get(&url(&u)) {
        Some(deno_graph::Module::Js(js)) => match &js.fast_check {
          None => FcSlot::None,
          Some(deno_graph::FastCheckTypeModuleSlot::Module(m)) => FcSlot::Module {
            text: m.source.to_string(),
            source_map: m.source_map.to_string(),
            deps: serde_json::Value::Object(m.dependencies.iter().map(|(k, d)| (k.clone(), dep_json(d))).collect()),
          },
          Some(deno_graph::FastCheckTypeModuleSlot::Error(d)) => FcSlot::Diagnostics(d.iter().map(|d| d.to_string()).collect()),
        },
        _ => FcSlot::None,
      };
      modules.insert(u, (src.clone(), slot));
    }
  }
  Some(FcResult {
    graph,
    modules,
    graph_errors,
  })
}
