//! AST utilities for the fast-check oracles: parsing with scope analysis,
//! export-name extraction, unresolved identifiers, structural erasure check,
//! signature extraction, and an independent source-map (VLQ) decoder.

use deno_ast::MediaType;
use deno_ast::ParsedSource;
use deno_ast::swc::ast::*;
use deno_ast::swc::common::Spanned;
use deno_ast::swc::ecma_visit::Visit;
use deno_ast::swc::ecma_visit::VisitWith;
use std::collections::BTreeMap;
use std::collections::BTreeSet;

pub fn parse(specifier: &str, text: &str) -> Result<ParsedSource, String> {
  let spec = deno_graph::ModuleSpecifier::parse(specifier).unwrap();
  deno_ast::parse_program(deno_ast::ParseParams {
    media_type: MediaType::from_specifier(&spec),
    specifier: spec,
    text: text.into(),
    capture_tokens: false,
    scope_analysis: true,
    maybe_syntax: None,
  })
  .map_err(|e| e.to_string())
}

fn module_items(p: &ParsedSource) -> Vec<ModuleItem> {
  match p.program_ref() {
    deno_ast::ProgramRef::Module(m) => m.body.clone(),
    deno_ast::ProgramRef::Script(s) => s.body.iter().cloned().map(ModuleItem::Stmt).collect(),
  }
}

fn export_name(n: &ModuleExportName) -> String {
  match n {
    ModuleExportName::Ident(i) => i.sym.to_string(),
    ModuleExportName::Str(s) => s.value.to_string_lossy().to_string(),
  }
}

fn pat_names(p: &Pat, out: &mut Vec<String>) {
  match p {
    Pat::Ident(b) => out.push(b.id.sym.to_string()),
    Pat::Array(a) => a.elems.iter().flatten().for_each(|e| pat_names(e, out)),
    Pat::Object(o) => {
      for prop in &o.props {
        match prop {
          ObjectPatProp::KeyValue(kv) => pat_names(&kv.value, out),
          ObjectPatProp::Assign(a) => out.push(a.key.sym.to_string()),
          ObjectPatProp::Rest(r) => pat_names(&r.arg, out),
        }
      }
    }
    Pat::Rest(r) => pat_names(&r.arg, out),
    Pat::Assign(a) => pat_names(&a.left, out),
    _ => {}
  }
}

fn decl_names(d: &Decl) -> Vec<(String, &'static str)> {
  match d {
    Decl::Class(c) => vec![(c.ident.sym.to_string(), "class")],
    Decl::Fn(f) => vec![(f.ident.sym.to_string(), "function")],
    Decl::Var(v) => {
      let mut names = vec![];
      for d in &v.decls {
        pat_names(&d.name, &mut names);
      }
      names.into_iter().map(|n| (n, "variable")).collect()
    }
    Decl::Using(_) => vec![],
    Decl::TsInterface(i) => vec![(i.id.sym.to_string(), "interface")],
    Decl::TsTypeAlias(t) => vec![(t.id.sym.to_string(), "type")],
    Decl::TsEnum(e) => vec![(e.id.sym.to_string(), "enum")],
    Decl::TsModule(m) => match &m.id {
      TsModuleName::Ident(i) => vec![(i.sym.to_string(), "namespace")],
      TsModuleName::Str(_) => vec![],
    },
  }
}

#[derive(Debug, Default, Clone)]
pub struct Exports {
  /// own export name -> kinds of the declarations behind it (merged declarations give several)
  pub own: BTreeMap<String, BTreeSet<&'static str>>,
  /// `export * from "x"` sources
  pub stars: Vec<String>,
  /// (imported/re-exported name or "*", source) for every import/export-from
  pub from_other: Vec<(String, String)>,
  /// every module-level declared or imported local name
  pub top_level_names: BTreeSet<String>,
}

pub fn exports_of(p: &ParsedSource) -> Exports {
  let mut e = Exports::default();
  let items = module_items(p);
  // local declaration kinds (for `export { x }`)
  let mut local_kinds: BTreeMap<String, BTreeSet<&'static str>> = BTreeMap::new();
  for it in &items {
    let d = match it {
      ModuleItem::Stmt(Stmt::Decl(d)) => Some(d),
      ModuleItem::ModuleDecl(ModuleDecl::ExportDecl(ed)) => Some(&ed.decl),
      _ => None,
    };
    if let Some(d) = d {
      for (n, k) in decl_names(d) {
        local_kinds.entry(n.clone()).or_default().insert(k);
        e.top_level_names.insert(n);
      }
    }
  }
  for it in &items {
    match it {
      ModuleItem::ModuleDecl(md) => match md {
        ModuleDecl::Import(i) => {
          for s in &i.specifiers {
            match s {
              ImportSpecifier::Named(n) => {
                e.top_level_names.insert(n.local.sym.to_string());
                let imported = n.imported.as_ref().map(export_name).unwrap_or_else(|| n.local.sym.to_string());
                e.from_other.push((imported, i.src.value.to_string_lossy().to_string()));
              }
              ImportSpecifier::Default(d) => {
                e.top_level_names.insert(d.local.sym.to_string());
                e.from_other.push(("default".into(), i.src.value.to_string_lossy().to_string()));
              }
              ImportSpecifier::Namespace(n) => {
                e.top_level_names.insert(n.local.sym.to_string());
                e.from_other.push(("*".into(), i.src.value.to_string_lossy().to_string()));
              }
            }
          }
          if i.specifiers.is_empty() {
            e.from_other.push(("*".into(), i.src.value.to_string_lossy().to_string()));
          }
        }
        ModuleDecl::ExportDecl(ed) => {
          for (n, k) in decl_names(&ed.decl) {
            e.own.entry(n).or_default().insert(k);
          }
        }
        ModuleDecl::ExportNamed(n) => {
          for s in &n.specifiers {
            match s {
              ExportSpecifier::Named(ns) => {
                let orig = export_name(&ns.orig);
                let exported = ns.exported.as_ref().map(export_name).unwrap_or_else(|| orig.clone());
                if let Some(src) = &n.src {
                  e.from_other.push((orig, src.value.to_string_lossy().to_string()));
                  e.own.entry(exported).or_default().insert("re-export");
                } else {
                  let kinds = local_kinds.get(&orig).cloned().unwrap_or_else(|| ["binding"].into_iter().collect());
                  e.own.entry(exported).or_default().extend(kinds);
                }
              }
              ExportSpecifier::Namespace(ns) => {
                e.own.entry(export_name(&ns.name)).or_default().insert("namespace-re-export");
                if let Some(src) = &n.src {
                  e.from_other.push(("*".into(), src.value.to_string_lossy().to_string()));
                }
              }
              ExportSpecifier::Default(d) => {
                e.own.entry(d.exported.sym.to_string()).or_default().insert("re-export");
              }
            }
          }
        }
        ModuleDecl::ExportDefaultDecl(d) => {
          let k = match &d.decl {
            DefaultDecl::Class(_) => "class",
            DefaultDecl::Fn(_) => "function",
            DefaultDecl::TsInterfaceDecl(_) => "interface",
          };
          e.own.entry("default".into()).or_default().insert(k);
          match &d.decl {
            DefaultDecl::Class(c) => {
              if let Some(i) = &c.ident {
                e.top_level_names.insert(i.sym.to_string());
              }
            }
            DefaultDecl::Fn(f) => {
              if let Some(i) = &f.ident {
                e.top_level_names.insert(i.sym.to_string());
              }
            }
            DefaultDecl::TsInterfaceDecl(i) => {
              e.top_level_names.insert(i.id.sym.to_string());
            }
          }
        }
        ModuleDecl::ExportDefaultExpr(_) => {
          e.own.entry("default".into()).or_default().insert("expression");
        }
        ModuleDecl::ExportAll(a) => {
          e.stars.push(a.src.value.to_string_lossy().to_string());
          e.from_other.push(("*".into(), a.src.value.to_string_lossy().to_string()));
        }
        ModuleDecl::TsImportEquals(i) => {
          e.top_level_names.insert(i.id.sym.to_string());
          if i.is_export {
            e.own.entry(i.id.sym.to_string()).or_default().insert("import-equals");
          }
        }
        ModuleDecl::TsExportAssignment(_) | ModuleDecl::TsNamespaceExport(_) => {}
      },
      ModuleItem::Stmt(_) => {}
    }
  }
  e
}

struct IdentCollector {
  unresolved: deno_ast::swc::common::SyntaxContext,
  names: BTreeSet<String>,
  skip_ambient_private: bool,
  in_ambient_class: usize,
}
impl Visit for IdentCollector {
  fn visit_ident(&mut self, i: &Ident) {
    if i.ctxt == self.unresolved {
      self.names.insert(i.sym.to_string());
    }
  }
  fn visit_class_decl(&mut self, c: &ClassDecl) {
    if c.declare {
      self.in_ambient_class += 1;
    }
    c.visit_children_with(self);
    if c.declare {
      self.in_ambient_class -= 1;
    }
  }
  fn visit_ts_module_decl(&mut self, m: &TsModuleDecl) {
    if m.declare {
      self.in_ambient_class += 1;
    }
    m.visit_children_with(self);
    if m.declare {
      self.in_ambient_class -= 1;
    }
  }
  fn visit_class_member(&mut self, m: &ClassMember) {
    if self.skip_ambient_private && self.in_ambient_class > 0 {
      let private = match m {
        ClassMember::Constructor(c) => c.accessibility == Some(Accessibility::Private),
        ClassMember::Method(m) => m.accessibility == Some(Accessibility::Private),
        ClassMember::ClassProp(p) => p.accessibility == Some(Accessibility::Private),
        _ => false,
      };
      if private {
        return;
      }
    }
    m.visit_children_with(self);
  }
}

/// like `unresolved_identifiers`, ignoring TS-private members of ambient classes
pub fn unresolved_identifiers_outside_ambient_private(p: &ParsedSource) -> BTreeSet<String> {
  let mut c = IdentCollector {
    unresolved: p.unresolved_context(),
    names: BTreeSet::new(),
    skip_ambient_private: true,
    in_ambient_class: 0,
  };
  match p.program_ref() {
    deno_ast::ProgramRef::Module(m) => m.visit_with(&mut c),
    deno_ast::ProgramRef::Script(s) => s.visit_with(&mut c),
  }
  c.names
}

/// identifiers that resolve to no declaration or import in the module
pub fn unresolved_identifiers(p: &ParsedSource) -> BTreeSet<String> {
  let mut c = IdentCollector {
    unresolved: p.unresolved_context(),
    names: BTreeSet::new(),
    skip_ambient_private: false,
    in_ambient_class: 0,
  };
  match p.program_ref() {
    deno_ast::ProgramRef::Module(m) => m.visit_with(&mut c),
    deno_ast::ProgramRef::Script(s) => s.visit_with(&mut c),
  }
  c.names
}

// ------------------------------------------------------------ erasure (C10)

pub struct ErasureChecker<'a> {
  pub text: &'a str,
  pub problems: Vec<(String, String)>,
  in_declare_or_ambient: usize,
  in_ambient_class: usize,
}

fn is_placeholder_expr(e: &Expr) -> bool {
  // `{} as never`
  match e {
    Expr::Paren(p) => is_placeholder_expr(&p.expr),
    Expr::TsAs(a) => {
      matches!(&*a.expr, Expr::Object(o) if o.props.is_empty())
        && matches!(&*a.type_ann, TsType::TsKeywordType(k) if k.kind == TsKeywordTypeKind::TsNeverKeyword)
    }
    _ => false,
  }
}

fn body_is_erased(b: &BlockStmt) -> bool {
  match b.stmts.as_slice() {
    [] => true,
    [Stmt::Return(r)] => r.arg.as_ref().is_some_and(|a| is_placeholder_expr(a)),
    _ => false,
  }
}

/// The documented "leavable" initialiser grammar.
fn is_leavable(e: &Expr) -> bool {
  match e {
    Expr::Lit(_) | Expr::Ident(_) | Expr::This(_) => true,
    Expr::Paren(p) => is_leavable(&p.expr),
    Expr::Member(m) => is_leavable(&m.obj) && matches!(&m.prop, MemberProp::Ident(_) | MemberProp::PrivateName(_)) || matches!(&m.prop, MemberProp::Computed(c) if is_leavable(&c.expr)) && is_leavable(&m.obj),
    Expr::Array(a) => a.elems.iter().flatten().all(|x| is_leavable(&x.expr)),
    Expr::Object(o) => o.props.iter().all(|p| match p {
      PropOrSpread::Spread(s) => is_leavable(&s.expr),
      PropOrSpread::Prop(p) => match &**p {
        Prop::Shorthand(_) => true,
        Prop::KeyValue(kv) => {
          (match &kv.key {
            PropName::Computed(c) => is_leavable(&c.expr),
            _ => true,
          }) && (is_leavable(&kv.value) || is_annotated_fn(&kv.value))
        }
        Prop::Method(_) | Prop::Getter(_) | Prop::Setter(_) => false,
        Prop::Assign(a) => is_leavable(&a.value),
      },
    }),
    Expr::Unary(u) => is_leavable(&u.arg),
    Expr::Update(u) => is_leavable(&u.arg),
    Expr::Await(a) => is_leavable(&a.arg),
    Expr::Bin(b) => is_leavable(&b.left) && is_leavable(&b.right),
    Expr::Cond(c) => is_leavable(&c.test) && is_leavable(&c.cons) && is_leavable(&c.alt),
    Expr::Tpl(t) => t.exprs.iter().all(|x| is_leavable(x)),
    Expr::TsAs(a) => is_placeholder_expr(e) || is_leavable(&a.expr),
    Expr::TsConstAssertion(a) => is_leavable(&a.expr),
    Expr::TsSatisfies(a) => is_leavable(&a.expr),
    Expr::TsNonNull(a) => is_leavable(&a.expr),
    Expr::TsTypeAssertion(a) => is_leavable(&a.expr),
    _ => false,
  }
}

fn is_annotated_fn(e: &Expr) -> bool {
  matches!(e, Expr::Arrow(_) | Expr::Fn(_))
}

impl<'a> ErasureChecker<'a> {
  pub fn new(text: &'a str) -> Self {
    ErasureChecker {
      text,
      problems: vec![],
      in_declare_or_ambient: 0,
      in_ambient_class: 0,
    }
  }
  fn snippet(&self, s: deno_ast::swc::common::Span) -> String {
    // spans are 1-based byte positions into the parsed text
    let lo = (s.lo.0 as usize).saturating_sub(1).min(self.text.len());
    let hi = (s.hi.0 as usize).saturating_sub(1).min(self.text.len());
    self.text.get(lo..hi).unwrap_or("").chars().take(120).collect()
  }
  fn problem(&mut self, class: &str, span: deno_ast::swc::common::Span) {
    let s = self.snippet(span);
    // members of an ambient (`declare`) class are left exactly as written
    let class = if self.in_ambient_class > 0 { format!("ambient-class:{class}") } else { class.to_string() };
    self.problems.push((class, s));
  }
  fn check_params(&mut self, params: &[Pat], what: &str) {
    for p in params {
      let typed = match p {
        Pat::Ident(b) => b.type_ann.is_some(),
        Pat::Rest(r) => r.type_ann.is_some(),
        Pat::Array(a) => a.type_ann.is_some(),
        Pat::Object(o) => o.type_ann.is_some(),
        Pat::Assign(a) => {
          // a retained default must itself be leavable
          let l = match &*a.left {
            Pat::Ident(b) => b.type_ann.is_some(),
            _ => false,
          };
          l || is_leavable(&a.right)
        }
        _ => false,
      };
      if !typed {
        self.problem(&format!("{what}-parameter-without-explicit-type"), p.span());
      }
    }
  }
}

impl Visit for ErasureChecker<'_> {
  fn visit_module_item(&mut self, it: &ModuleItem) {
    if let ModuleItem::Stmt(s) = it
      && !matches!(s, Stmt::Decl(_) | Stmt::Empty(_))
    {
      self.problem("top-level-statement-survives", s.span());
    }
    it.visit_children_with(self);
  }
  fn visit_ts_module_block(&mut self, b: &TsModuleBlock) {
    for it in &b.body {
      if let ModuleItem::Stmt(s) = it
        && !matches!(s, Stmt::Decl(_) | Stmt::Empty(_))
      {
        self.problem("namespace-level-statement-survives", s.span());
      }
    }
    b.visit_children_with(self);
  }
  fn visit_function(&mut self, f: &Function) {
    if let Some(b) = &f.body
      && !body_is_erased(b)
    {
      self.problem("function-body-not-erased", b.span);
    }
    let params: Vec<Pat> = f.params.iter().map(|p| p.pat.clone()).collect();
    self.check_params(&params, "function");
    if f.return_type.is_none() {
      self.problem("function-without-return-type", f.span);
    }
    for p in &f.params {
      if !p.decorators.is_empty() {
        self.problem("decorator-survives", p.span);
      }
    }
    if !f.decorators.is_empty() {
      self.problem("decorator-survives", f.span);
    }
    // do not descend into the (erased) body; parameters may hold defaults
    for p in &f.params {
      p.visit_with(self);
    }
  }
  fn visit_arrow_expr(&mut self, a: &ArrowExpr) {
    let erased = match &*a.body {
      BlockStmtOrExpr::BlockStmt(b) => body_is_erased(b),
      BlockStmtOrExpr::Expr(e) => is_placeholder_expr(e),
    };
    if !erased {
      self.problem("arrow-body-not-erased", a.span);
    }
    self.check_params(&a.params, "arrow");
    if a.return_type.is_none() {
      self.problem("arrow-without-return-type", a.span);
    }
  }
  fn visit_getter_prop(&mut self, g: &GetterProp) {
    if let Some(b) = &g.body
      && !body_is_erased(b)
    {
      self.problem("getter-body-not-erased", b.span);
    }
    if g.type_ann.is_none() {
      self.problem("getter-without-return-type", g.span);
    }
  }
  fn visit_setter_prop(&mut self, s: &SetterProp) {
    if let Some(b) = &s.body
      && !body_is_erased(b)
    {
      self.problem("setter-body-not-erased", b.span);
    }
    self.check_params(&[(*s.param).clone()], "setter");
  }
  fn visit_constructor(&mut self, c: &Constructor) {
    if let Some(b) = &c.body {
      let ok = match b.stmts.as_slice() {
        [] => true,
        [Stmt::Expr(e)] => matches!(&*e.expr, Expr::Call(call) if matches!(call.callee, Callee::Super(_)) && call.args.iter().all(|a| is_placeholder_expr(&a.expr) || is_leavable(&a.expr))),
        _ => false,
      };
      if !ok {
        self.problem("constructor-body-not-erased", b.span);
      }
    }
    for p in &c.params {
      match p {
        ParamOrTsParamProp::Param(p) => {
          self.check_params(&[p.pat.clone()], "constructor");
          if !p.decorators.is_empty() {
            self.problem("decorator-survives", p.span);
          }
        }
        ParamOrTsParamProp::TsParamProp(pp) => {
          self.problem("parameter-property-survives", pp.span);
        }
      }
    }
  }
  fn visit_class_method(&mut self, m: &ClassMethod) {
    if m.accessibility == Some(Accessibility::Private) {
      self.problem("ts-private-method-survives", m.span);
    }
    if m.kind == MethodKind::Setter {
      // setters need no return type
      if let Some(b) = &m.function.body
        && !body_is_erased(b)
      {
        self.problem("setter-body-not-erased", b.span);
      }
      let params: Vec<Pat> = m.function.params.iter().map(|p| p.pat.clone()).collect();
      self.check_params(&params, "setter");
      return;
    }
    m.visit_children_with(self);
  }
  fn visit_private_method(&mut self, m: &PrivateMethod) {
    self.problem("ecmascript-private-member-survives", m.span);
  }
  fn visit_private_prop(&mut self, p: &PrivateProp) {
    // the single `#private!: unknown` brand marker is allowed
    let is_marker = &*p.key.name == "private"
      && p.value.is_none()
      && p.definite
      && p.type_ann.as_ref().is_some_and(|t| matches!(&*t.type_ann, TsType::TsKeywordType(k) if k.kind == TsKeywordTypeKind::TsUnknownKeyword));
    if !is_marker {
      self.problem("ecmascript-private-member-survives", p.span);
    }
  }
  fn visit_class_prop(&mut self, p: &ClassProp) {
    if !p.decorators.is_empty() {
      self.problem("decorator-survives", p.span);
    }
    if p.accessibility == Some(Accessibility::Private) {
      let any = p.type_ann.as_ref().is_some_and(|t| matches!(&*t.type_ann, TsType::TsKeywordType(k) if k.kind == TsKeywordTypeKind::TsAnyKeyword));
      if !any || !p.declare || p.value.is_some() {
        self.problem("ts-private-property-not-reduced-to-declare-any", p.span);
      }
      return;
    }
    if let Some(v) = &p.value {
      if !is_leavable(v) && !is_annotated_fn(v) {
        self.problem("class-property-initialiser-survives", p.span);
      }
      v.visit_with(self);
    } else if p.type_ann.is_none() {
      self.problem("class-property-without-type", p.span);
    }
  }
  fn visit_auto_accessor(&mut self, a: &AutoAccessor) {
    if !a.decorators.is_empty() {
      self.problem("decorator-survives", a.span);
    }
    if let Some(v) = &a.value
      && !is_leavable(v)
    {
      self.problem("class-property-initialiser-survives", a.span);
    }
  }
  fn visit_class_decl(&mut self, c: &ClassDecl) {
    if c.declare {
      self.in_ambient_class += 1;
    }
    c.visit_children_with(self);
    if c.declare {
      self.in_ambient_class -= 1;
    }
  }
  fn visit_class(&mut self, c: &Class) {
    if !c.decorators.is_empty() {
      self.problem("decorator-survives", c.span);
    }
    c.visit_children_with(self);
  }
  fn visit_static_block(&mut self, b: &StaticBlock) {
    self.problem("static-block-survives", b.span);
  }
  fn visit_var_declarator(&mut self, d: &VarDeclarator) {
    let annotated = match &d.name {
      Pat::Ident(b) => b.type_ann.is_some(),
      _ => false,
    };
    match &d.init {
      None => {
        if !annotated && self.in_declare_or_ambient == 0 {
          self.problem("variable-without-type-or-initialiser", d.span);
        }
      }
      Some(init) => {
        if is_placeholder_expr(init) {
          if !annotated {
            self.problem("variable-with-placeholder-but-no-type", d.span);
          }
        } else if is_annotated_fn(init) {
          init.visit_with(self);
        } else if !is_leavable(init) {
          self.problem("initialiser-survives", d.span);
        } else {
          init.visit_with(self);
        }
      }
    }
  }
  fn visit_var_decl(&mut self, v: &VarDecl) {
    if v.declare {
      self.in_declare_or_ambient += 1;
    }
    v.visit_children_with(self);
    if v.declare {
      self.in_declare_or_ambient -= 1;
    }
  }
  fn visit_ts_module_decl(&mut self, m: &TsModuleDecl) {
    if m.declare {
      self.in_declare_or_ambient += 1;
      self.in_ambient_class += 1;
    }
    m.visit_children_with(self);
    if m.declare {
      self.in_declare_or_ambient -= 1;
      self.in_ambient_class -= 1;
    }
  }
  fn visit_decorator(&mut self, d: &Decorator) {
    self.problem("decorator-survives", d.span);
  }
}

pub fn erasure_problems(p: &ParsedSource, text: &str) -> Vec<(String, String)> {
  let mut c = ErasureChecker::new(text);
  match p.program_ref() {
    deno_ast::ProgramRef::Module(m) => m.visit_with(&mut c),
    deno_ast::ProgramRef::Script(s) => s.visit_with(&mut c),
  }
  c.problems
}

// ------------------------------------------------------------ signatures (C11)

/// Written annotations of exported declarations, keyed by a path such as
/// `f1/param0`, `C14.m/return`, `I16`, with whitespace removed.
pub fn signatures(p: &ParsedSource, text: &str) -> BTreeMap<String, String> {
  let mut out = BTreeMap::new();
  let snip = |s: deno_ast::swc::common::Span| -> String {
    let lo = (s.lo.0 as usize).saturating_sub(1).min(text.len());
    let hi = (s.hi.0 as usize).saturating_sub(1).min(text.len());
    text.get(lo..hi).unwrap_or("").chars().filter(|c| !c.is_whitespace() && *c != ';' && *c != ',').collect()
  };
  fn pat_ann(p: &Pat) -> Option<&TsTypeAnn> {
    match p {
      Pat::Ident(b) => b.type_ann.as_deref(),
      Pat::Rest(r) => r.type_ann.as_deref(),
      Pat::Array(a) => a.type_ann.as_deref(),
      Pat::Object(o) => o.type_ann.as_deref(),
      Pat::Assign(a) => pat_ann(&a.left),
      _ => None,
    }
  }
  let mut fn_sig = |out: &mut BTreeMap<String, String>, key: String, f: &Function, overload: usize| {
    let key = if overload > 0 { format!("{key}#{overload}") } else { key };
    for (i, prm) in f.params.iter().enumerate() {
      if let Some(a) = pat_ann(&prm.pat) {
        out.insert(format!("{key}/param{i}"), snip(a.type_ann.span()));
      }
      // does the parameter accept `undefined` (optional, defaulted, or typed so)?
      let ann_text = pat_ann(&prm.pat).map(|a| snip(a.type_ann.span())).unwrap_or_default();
      let accepts = match &prm.pat {
        Pat::Assign(_) => true,
        Pat::Ident(b) if b.id.optional => true,
        Pat::Rest(_) => true,
        _ => ann_text.contains("undefined") || ann_text == "any" || ann_text == "unknown" || ann_text.is_empty(),
      };
      out.insert(format!("{key}/param{i}/accepts-undefined"), if accepts { "yes".into() } else { "no".into() });
      // may the argument be omitted at a call site? `p?` always; `p = d` only when
      // no required parameter follows (the documented normalisation turns a
      // default before a required parameter into `p: T | undefined`)
      let is_required = |p: &Pat| match p {
        Pat::Assign(_) | Pat::Rest(_) => false,
        Pat::Ident(b) => !b.id.optional,
        _ => true,
      };
      let required_follows = f.params[i + 1..].iter().any(|q| is_required(&q.pat));
      let omittable = match &prm.pat {
        Pat::Ident(b) if b.id.optional => true,
        Pat::Assign(_) => !required_follows,
        Pat::Rest(_) => true,
        _ => false,
      };
      out.insert(format!("{key}/param{i}/may-be-omitted"), if omittable { "yes".into() } else { "no".into() });
    }
    if let Some(r) = &f.return_type {
      out.insert(format!("{key}/return"), snip(r.type_ann.span()));
    }
    if let Some(tp) = &f.type_params {
      out.insert(format!("{key}/type-params"), snip(tp.span));
    }
  };
  let mut class_sig = |out: &mut BTreeMap<String, String>, name: &str, c: &Class| {
    if let Some(s) = &c.super_class {
      out.insert(format!("{name}/extends"), snip(s.span()));
    }
    for (i, im) in c.implements.iter().enumerate() {
      out.insert(format!("{name}/implements{i}"), snip(im.span));
    }
    if let Some(tp) = &c.type_params {
      out.insert(format!("{name}/type-params"), snip(tp.span));
    }
    let mut seen: BTreeMap<String, usize> = BTreeMap::new();
    // the implementation signature of an overloaded method is not API
    let mut method_counts: BTreeMap<(bool, String), usize> = BTreeMap::new();
    for m in &c.body {
      if let ClassMember::Method(m) = m
        && m.kind == MethodKind::Method
        && let PropName::Ident(k) = &m.key
      {
        *method_counts.entry((m.is_static, k.sym.to_string())).or_default() += 1;
      }
    }
    for m in &c.body {
      match m {
        ClassMember::Method(m) if m.accessibility != Some(Accessibility::Private) => {
          if let PropName::Ident(k) = &m.key {
            if m.kind == MethodKind::Method
              && m.function.body.is_some()
              && method_counts.get(&(m.is_static, k.sym.to_string())).copied().unwrap_or(0) > 1
            {
              continue;
            }
            let base = format!("{name}.{}{}", if m.is_static { "static:" } else { "" }, k.sym);
            let n = seen.entry(base.clone()).or_default();
            let kind = match m.kind {
              MethodKind::Getter => ":get",
              MethodKind::Setter => ":set",
              MethodKind::Method => "",
            };
            let ov = if kind.is_empty() { *n } else { 0 };
            fn_sig(out, format!("{base}{kind}"), &m.function, ov);
            if kind.is_empty() {
              *n += 1;
            }
          }
        }
        ClassMember::ClassProp(p) if p.accessibility != Some(Accessibility::Private) => {
          if let (PropName::Ident(k), Some(t)) = (&p.key, &p.type_ann) {
            out.insert(format!("{name}.{}{}", if p.is_static { "static:" } else { "" }, k.sym), snip(t.type_ann.span()));
          }
        }
        _ => {}
      }
    }
  };
  let mut fn_counts: BTreeMap<String, usize> = BTreeMap::new();
  let mut decl_counts: BTreeMap<String, usize> = BTreeMap::new();
  let mut default_fn_count = 0;
  for it in module_items(p) {
    if let ModuleItem::ModuleDecl(ModuleDecl::ExportDecl(ed)) = &it
      && let Decl::Fn(f) = &ed.decl
    {
      *decl_counts.entry(f.ident.sym.to_string()).or_default() += 1;
    }
    if let ModuleItem::ModuleDecl(ModuleDecl::ExportDefaultDecl(d)) = &it
      && matches!(d.decl, DefaultDecl::Fn(_))
    {
      default_fn_count += 1;
    }
  }
  let overloaded_fns: BTreeSet<String> = decl_counts.into_iter().filter(|(_, n)| *n > 1).map(|(k, _)| k).collect();
  let default_overloaded = default_fn_count > 1;
  for it in module_items(p) {
    let ModuleItem::ModuleDecl(md) = &it else { continue };
    match md {
      ModuleDecl::ExportDecl(ed) => match &ed.decl {
        Decl::Fn(f) => {
          // the implementation signature of an overloaded function is not API
          let name = f.ident.sym.to_string();
          let overloaded = overloaded_fns.contains(&name);
          if !(overloaded && f.function.body.is_some()) {
            let n = fn_counts.entry(name.clone()).or_default();
            fn_sig(&mut out, name, &f.function, *n);
            *n += 1;
          }
        }
        Decl::Class(c) => class_sig(&mut out, &c.ident.sym, &c.class),
        Decl::Var(v) => {
          for d in &v.decls {
            if let Pat::Ident(b) = &d.name
              && let Some(t) = &b.type_ann
            {
              out.insert(b.id.sym.to_string(), snip(t.type_ann.span()));
            }
          }
        }
        Decl::TsInterface(i) => {
          out.insert(i.id.sym.to_string(), snip(i.span));
        }
        Decl::TsTypeAlias(t) => {
          out.insert(t.id.sym.to_string(), snip(t.span));
        }
        Decl::TsEnum(e) => {
          out.insert(e.id.sym.to_string(), snip(e.span));
        }
        _ => {}
      },
      ModuleDecl::ExportDefaultDecl(d) => match &d.decl {
        DefaultDecl::Fn(f) => {
          if !(default_overloaded && f.function.body.is_some()) {
            let n = fn_counts.entry("default".to_string()).or_default();
            fn_sig(&mut out, "default".into(), &f.function, *n);
            *n += 1;
          }
        }
        DefaultDecl::Class(c) => class_sig(&mut out, "default", &c.class),
        DefaultDecl::TsInterfaceDecl(i) => {
          out.insert("default".into(), snip(i.span));
        }
      },
      _ => {}
    }
  }
  out
}

// ------------------------------------------------------------ source maps

#[derive(Debug, Clone, Copy)]
pub struct Mapping {
  pub gen_line: u32,
  pub gen_col: u32,
  pub src: u32,
  pub src_line: u32,
  pub src_col: u32,
}

/// Independent base64-VLQ decoder for the `mappings` field of a v3 source map.
pub fn decode_mappings(mappings: &str) -> Result<Vec<Mapping>, String> {
  const B64: &[u8] = b"ABCDEFGHIJKLMNOPQRSTUVWXYZabcdefghijklmnopqrstuvwxyz0123456789+/";
  let mut out = vec![];
  let (mut src, mut src_line, mut src_col) = (0i64, 0i64, 0i64);
  for (line_no, line) in mappings.split(';').enumerate() {
    let mut gen_col = 0i64;
    for seg in line.split(',').filter(|s| !s.is_empty()) {
      let mut vals: Vec<i64> = vec![];
      let (mut shift, mut value) = (0u32, 0i64);
      for c in seg.bytes() {
        let d = B64.iter().position(|b| *b == c).ok_or_else(|| format!("bad base64 char {:?}", c as char))? as i64;
        value += (d & 31) << shift;
        if d & 32 != 0 {
          shift += 5;
        } else {
          let neg = value & 1 == 1;
          let v = value >> 1;
          vals.push(if neg { -v } else { v });
          shift = 0;
          value = 0;
        }
      }
      if shift != 0 {
        return Err("truncated VLQ".into());
      }
      match vals.len() {
        1 => {
          gen_col += vals[0];
        }
        4 | 5 => {
          gen_col += vals[0];
          src += vals[1];
          src_line += vals[2];
          src_col += vals[3];
          if gen_col < 0 || src < 0 || src_line < 0 || src_col < 0 {
            return Err("negative position".into());
          }
          out.push(Mapping {
            gen_line: line_no as u32,
            gen_col: gen_col as u32,
            src: src as u32,
            src_line: src_line as u32,
            src_col: src_col as u32,
          });
        }
        n => return Err(format!("segment with {n} fields")),
      }
    }
  }
  Ok(out)
}

/// byte offset of (line, column) where columns count UTF-16 code units
pub fn offset_utf16(text: &str, line: u32, col: u32) -> Option<usize> {
  let mut start = 0usize;
  for _ in 0..line {
    start += text[start..].find('\n')? + 1;
  }
  let rest = &text[start..];
  let end = rest.find('\n').unwrap_or(rest.len());
  let mut units = 0u32;
  for (bi, c) in rest[..end].char_indices() {
    if units == col {
      return Some(start + bi);
    }
    units += c.len_utf16() as u32;
  }
  if units == col {
    return Some(start + end);
  }
  None
}

pub fn ident_at(text: &str, off: usize) -> Option<&str> {
  let rest = text.get(off..)?;
  let end = rest
    .char_indices()
    .find(|(_, c)| !(c.is_alphanumeric() || *c == '_' || *c == '$'))
    .map(|(i, _)| i)
    .unwrap_or(rest.len());
  if end == 0 || rest.chars().next().is_some_and(|c| c.is_ascii_digit()) {
    return None;
  }
  Some(&rest[..end])
}
