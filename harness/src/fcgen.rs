//! Package generator for the fast-check properties: a registry package of
//! 2-3 modules whose declarations are chosen from an alphabet of templates and
//! whose annotations reference other declarations through an alphabet of
//! reference forms. The generator records which declarations are *unused*
//! (neither exported nor referenced from an exported one).

use crate::engine::Ch;
use crate::fc::FcPackage;

/// Reference forms usable in a type position of mod.ts.
/// (text, what mod.ts must import/declare for it)
pub const REFS: &[(&str, &str)] = &[
  ("number", ""),
  ("PrivT", "type PrivT = { a: number };\n"),
  ("PrivI", "interface PrivI { i: number }\n"),
  ("PrivC", "class PrivC { c: number = 1; }\n"),
  ("PrivE", "enum PrivE { A, B }\n"),
  ("PrivN.Z", "namespace PrivN { export type Z = number; export const zv: number = 1; }\n"),
  ("BT", "import { BT } from \"./b.ts\";\n"),
  ("bns.BU", "import * as bns from \"./b.ts\";\n"),
  ("BU", "import type { BU } from \"./b.ts\";\n"),
  ("typeof privV", "const privV = 1;\n"),
  ("import(\"./b.ts\").BT", ""),
  ("Array<PrivT>", "type PrivT = { a: number };\n"),
  ("BC", "import { BC } from \"./b.ts\";\n"),
  ("BN.Y", "import { BN } from \"./b.ts\";\n"),
  ("Renamed", "import { BT as Renamed } from \"./b.ts\";\n"),
  ("DefB", "import DefB from \"./b.ts\";\n"),
  ("PrivT | undefined", "type PrivT = { a: number };\n"),
  ("PrivG<PrivT>", "type PrivT = { a: number };\ntype PrivG<T> = { g: T };\n"),
  // names reached through nested `export *` barrels
  ("Leaf", "import { Leaf } from \"./barrel.ts\";\n"),
  ("Leaf | MidT", "import { Leaf } from \"./barrel.ts\";\nimport { Mid as MidT } from \"./barrel.ts\";\n"),
  ("MidT", "import { Mid as MidT } from \"./mid.ts\";\n"),
  ("DepT", "import type { DepT } from \"jsr:@s/b@1\";\n"),
  // one name of c.ts (which exports two): what else of c.ts is public depends on who else asks
  ("CT", "import type { CT } from \"./c.ts\";\n"),
];

pub const BARREL_SRC: &str = "export * from \"./mid.ts\";\nexport const barrelOwn: number = 1;\n";
pub const MID_SRC: &str = "export * from \"./leaf.ts\";\nexport interface Mid { m: number }\n";
pub const LEAF_SRC: &str = "export interface Leaf { l: number }\nexport const leafV: number = 1;\n";
/// the dependency package: named exports and a default export
pub const DEP_SRC: &str = "export interface DepT { d: number }\nexport const depV: number = 1;\nexport default class DepDefault { x: number = 1; }\n";

/// Declaration templates for mod.ts. `@R` = reference form, `@N` = slot number.
/// The flag says whether the declaration is expected to be *diagnosable*
/// (cannot be made explicit), only used for coverage counters.
pub const DECLS: &[(&str, &str)] = &[
  ("none", ""),
  ("fn-annotated", "export function f@N(a: @R): @R { return a; }\n"),
  ("fn-void", "export function f@N(): void { console.log(\"x\"); }\n"),
  ("fn-no-return-type", "export function f@N(a: @R) { return a; }\n"),
  ("fn-async", "export async function f@N(a: @R): Promise<@R> { return a; }\n"),
  ("fn-generator", "export function* f@N(a: @R): Generator<@R> { yield a; }\n"),
  ("fn-overloads", "export function f@N(a: string): string;\nexport function f@N(a: @R): @R;\nexport function f@N(a: any): any { return a; }\n"),
  ("fn-generic", "export function f@N<T extends @R>(a: T, b?: @R, ...rest: @R[]): T { return a; }\n"),
  ("fn-default-param", "export function f@N(a: @R, b: number = 5, c = \"s\"): void {}\n"),
  ("fn-inferred-default-before-required", "export function f@N(first = 1, second: @R, third = \"s\"): void {}\n"),
  ("fn-annotated-default-before-required", "export function f@N(first: number = 1, second: @R): void {}\n"),
  ("fn-optional-then-default", "export function f@N(a: @R, b?: number, c: string = \"x\"): void {}\n"),
  ("class-method-default-before-required", "export class C@N { constructor(x = 1, y: @R) {} m(first = true, second: @R): void {} static s(a = [1], b: number): void {} }\n"),
  ("arrow-default-before-required", "export const c@N = (first = 1, second: @R): void => {};\n"),
  ("fn-destructured-param", "export function f@N({ a, b }: { a: @R; b: number }): void {}\n"),
  ("const-annotated", "export const c@N: @R = null as any;\n"),
  ("const-literal", "export const c@N = 1;\n"),
  ("const-string-literal", "export const c@N = \"s\";\n"),
  ("const-as-cast", "export const c@N = null as unknown as @R;\n"),
  ("const-arrow-annotated", "export const c@N = (a: @R): @R => a;\n"),
  ("const-arrow-identifier-body", "const other@N = 5;\nexport const c@N = () => other@N;\n"),
  ("const-fn-expr", "export const c@N = function (a: @R): @R { return a; };\n"),
  ("const-object-literal", "export const c@N = { a: 1, b: \"x\", c: [1, 2] };\n"),
  ("const-object-computed-key-call", "function mk@N(): string { return \"k\"; }\nexport const c@N = { [mk@N()]: 1, plain: 2 };\n"),
  ("const-object-computed-key-leavable", "const key@N = \"k\";\nexport const c@N = { [key@N]: 1, [\"lit\"]: 2 };\n"),
  ("const-array-call-then-literal", "function mk@N(): number { return 1; }\nexport const c@N = [mk@N(), 1];\n"),
  ("const-array-hole-call-literal", "function mk@N(): number { return 1; }\nexport const c@N = [, new Date(), , \"x\"];\n"),
  ("const-object-call-then-literal", "function mk@N(): number { return 1; }\nexport const c@N = { a: mk@N(), b: 1 };\n"),
  ("const-template-call-then-literal", "function mk@N(): number { return 1; }\nexport const c@N = `${mk@N()}-${1}`;\n"),
  ("fn-default-between-required", "export function f@N(first: string, value: number = 1, last: @R): void {}\nexport class CB@N { m(a: @R, b = true, c: number, d = 2): void {} constructor(x: number, y: @R = null as any, z: string) {} }\nexport const ab@N = (p: number, q: string = \"q\", r: @R): void => {};\n"),
  ("leav-bin-call-left", "function mk@N(): number { return 1; }\nexport const c@N = mk@N() + 1;\n"),
  ("leav-bin-call-right", "function mk@N(): number { return 1; }\nexport const c@N = 1 + mk@N();\n"),
  ("leav-cond-call-test", "function mk@N(): number { return 1; }\nexport const c@N = mk@N() ? 1 : 2;\n"),
  ("leav-cond-call-cons", "function mk@N(): number { return 1; }\nexport const c@N = true ? mk@N() : 2;\n"),
  ("leav-cond-call-alt", "function mk@N(): number { return 1; }\nexport const c@N = true ? 1 : mk@N();\n"),
  ("leav-member-computed-call", "function mk@N(): number { return 1; }\nexport const c@N = [1, 2][mk@N()];\n"),
  ("leav-member-of-call-object", "function mk@N(): number { return 1; }\nexport const c@N = [mk@N()].length;\n"),
  ("leav-object-spread-first", "function mk@N(): number { return 1; }\nexport const c@N = { ...[mk@N()], a: 1 };\n"),
  ("leav-object-spread-last", "function mk@N(): number { return 1; }\nexport const c@N = { a: 1, ...[mk@N()] };\n"),
  ("leav-array-spread-first", "function mk@N(): number { return 1; }\nexport const c@N = [...[mk@N()], 1];\n"),
  ("leav-seq-then-literal", "function mk@N(): number { return 1; }\nexport const c@N = (mk@N(), 1);\n"),
  ("leav-unary-of-call", "function mk@N(): number { return 1; }\nexport const c@N = -mk@N();\n"),
  ("leav-as-const-with-call", "function mk@N(): number { return 1; }\nexport const c@N = [mk@N(), 1] as const;\n"),
  ("leav-nested-object-call-first", "function mk@N(): number { return 1; }\nexport const c@N = { o: { x: mk@N(), y: 1 }, z: 2 };\n"),
  ("const-array-with-call", "function mk@N(): number { return 1; }\nexport const c@N = [1, mk@N()];\n"),
  ("const-object-value-call", "function mk@N(): number { return 1; }\nexport const c@N = { a: 1, b: mk@N() };\n"),
  ("const-object-spread-call", "function mk@N(): object { return {}; }\nexport const c@N = { a: 1, ...mk@N() };\n"),
  ("const-template-with-call", "function mk@N(): string { return \"x\"; }\nexport const c@N = `a${mk@N()}`;\n"),
  ("const-conditional-with-new", "export const c@N = 1 ? new Date() : 2;\n"),
  ("const-member-of-call", "function mk@N(): { p: number } { return { p: 1 }; }\nexport const c@N = mk@N().p;\n"),
  ("const-object-with-method", "export const c@N = { m(): number { return 1; }, get g(): number { return 2; } };\n"),
  ("class-prop-call-initialiser", "function mk@N(): number { return 1; }\nexport class C@N { p = mk@N(); q = [mk@N()]; }\n"),
  ("fn-param-default-call", "function mk@N(): number { return 1; }\nexport function f@N(a = mk@N(), b = { [mk@N()]: 1 }): void {}\n"),
  ("const-nested-arrow-in-object", "export const c@N = { f: (a: @R): @R => a, g: function (): void {} };\n"),
  ("const-identifier", "const src@N: @R = null as any;\nexport const c@N = src@N;\n"),
  ("const-call", "function mk@N(): @R { return null as any; }\nexport const c@N = mk@N();\n"),
  ("let-annotated", "export let l@N: @R;\n"),
  ("destructuring", "const obj@N = { a: 1 };\nexport const { a: d@N } = obj@N;\n"),
  // function-valued initialisers without annotations: leavable as expressions, but their parameters / bodies are not explicit
  ("class-prop-untyped-arrow", "function disp@N(r: unknown): number { return 1; }\nexport class C@N { handle = (req) => disp@N(req); fallback = function (req) { return disp@N(req); }; }\n"),
  ("class-prop-typed-arrow-no-return", "function disp@N(r: unknown): number { return 1; }\nexport class C@N { handle = (req: @R) => disp@N(req); static sh = async (req: @R) => { await disp@N(req); }; }\n"),
  ("const-untyped-arrow-in-object", "function disp@N(r: unknown): number { return 1; }\nexport const api@N = { run: (req) => disp@N(req), n: 1 };\n"),
  // computed keys naming a private module-level value, in every kind of signature
  ("typelit-computed-method-key", "const km@N: unique symbol = Symbol();\nexport type TLM@N = { [km@N](a: @R): void };\n"),
  ("typelit-computed-property-key", "const kp@N: unique symbol = Symbol();\nexport type TLP@N = { readonly [kp@N]?: @R };\n"),
  ("typelit-computed-accessor-keys", "const kg@N: unique symbol = Symbol();\nconst ks@N: unique symbol = Symbol();\nexport type TLA@N = { get [kg@N](): @R; set [ks@N](v: @R) };\n"),
  ("interface-computed-keys", "const ki@N: unique symbol = Symbol();\nconst kj@N: unique symbol = Symbol();\nexport interface IC@N { [ki@N](): @R; [kj@N]: number }\n"),
  ("nested-typelit-computed-method-key", "const kn@N: unique symbol = Symbol();\nexport function fn@N(o: { inner: { [kn@N](): void } }): void {}\n"),
  // further declaration shapes
  ("class-expression", "export const KE@N = class { m(a: @R): @R { return a; } p: number = 1; };\n"),
  ("class-expression-named-extends", "class KB@N { b: @R = null as any; }\nexport const KX@N = class Inner extends KB@N { x(): void {} };\n"),
  ("export-as-default", "class PD@N { v: @R = null as any; }\nexport { PD@N as default };\n"),
  ("index-signature", "export interface IS@N { [key: string]: @R; fixed: number }\nexport class CS@N { [k: string]: unknown; static [s: string]: number; }\n"),
  ("constructor-overloads", "export class CO@N { constructor(a: string); constructor(a: @R, b?: number); constructor(a: any, b?: any) { void a; void b; } }\n"),
  ("enum-referencing-private", "const base@N = 10;\nenum PE@N { A = 1, B = A * 2 }\nexport enum EE@N { X = PE@N.B, Y = base@N, Z = \"z\".length }\n"),
  ("declare-module-augmentation", "export interface Aug@N { a: @R }\ndeclare module \"./b.ts\" { interface BU { extra@N?: number } }\n"),
  ("type-predicates", "export function isR@N(x: unknown): x is @R { return true; }\nexport function assertR@N(x: unknown): asserts x is @R {}\nexport class TP@N { isMe(): this is TP@N { return true; } }\n"),
  ("this-return-and-rest", "export class Ch@N { a(...xs: @R[]): this { return this; } b = (...ys: number[]): number => ys.length; }\n"),
  ("es-private-and-static-block", "export class EP@N { #secret: @R = null as any; static #count = 0; static { EP@N.#count++; } get size(): number { return EP@N.#count; } #m(): void {} pub(): void { this.#m(); } }\n"),
  ("accessor-pair", "export class AP@N { private _v: @R = null as any; get v(): @R { return this._v; } set v(x: @R) { this._v = x; } static get s(): number { return 1; } }\n"),
  ("as-const-and-tuples", "export const tup@N = [1, \"a\", true] as const;\nexport const obj@N = { k: 1, nested: { z: \"q\" } } as const;\nexport type Tup@N = [a: @R, b?: number, ...rest: string[]];\n"),
  ("conditional-and-recursive-types", "export type Un@N<T> = T extends Array<infer U> ? Un@N<U> : T;\nexport type Tree@N = { v: @R; kids: Tree@N[] };\nexport type KeysOf@N = keyof Tree@N & string;\n"),
  ("literal-initialisers", "export const big@N = 10n;\nexport const neg@N = -1;\nexport const re@N = /x+/g;\nexport const tpl@N = `plain`;\nexport const nul@N = null;\nexport const und@N = undefined;\nexport const vd@N = void 0;\n"),
  ("new-with-type-arguments", "export const mp@N = new Map<string, @R>();\nexport const st@N: Set<@R> = new Set();\n"),
  ("declare-fields-and-protected", "export abstract class DF@N { declare readonly d: @R; protected p: number = 1; protected abstract q(): @R; protected constructor() {} }\n"),
  ("export-import-equals", "namespace Src@N { export type T = @R; export const v: number = 1; }\nexport import Alias@N = Src@N.T;\n"),
  ("function-destructured-and-rest", "export function fd@N({ a, b }: { a: @R; b?: number }, [c]: [string], ...rest: @R[]): void {}\nexport const ad@N = ({ a }: { a: @R }): void => {};\n"),
  ("object-with-accessors-and-spread", "const partO@N = { z: 1 };\nexport const ow@N = { get g(): number { return 1; }, set s(v: number) {}, ...partO@N, [\"k\"]: 2 };\n"),
  ("top-level-await-initialiser", "export const aw@N = await Promise.resolve(1);\nexport const oc@N = globalThis?.name?.length;\n"),
  ("generator-and-async-methods", "export class GM@N { *gen(): Generator<@R> {} async am(): Promise<@R> { return null as any; } async *ag(): AsyncGenerator<number> {} }\n"),
  // a function that shares its name with a type-only declaration written before it
  ("merged-interface-then-function", "export interface Pt@N { x: @R }\nexport function Pt@N(x: @R, y: number = 1): Pt@N { return { x }; }\n"),
  ("merged-type-alias-then-function", "interface Opt@N { o: @R }\nexport type Mk@N = { v: number };\nexport function Mk@N(o: Opt@N): Mk@N { return { v: 1 }; }\n"),
  ("class-members", "export class C@N {\n  p: @R = null as any;\n  static s: number = 1;\n  readonly ro?: @R;\n  constructor(public q: @R, private r: number, protected t?: @R) {}\n  m(a: @R, b: number = 1, c?: @R, ...rest: @R[]): @R { return a; }\n  get g(): @R { return this.p; }\n  set g(v: @R) {}\n  private priv(x: number): void {}\n  private pp: number = 1;\n  #hidden: number = 1;\n  #hm(): void {}\n  protected prot(): @R { return this.p; }\n  static sm(): void {}\n  [key: string]: any;\n}\n"),
  ("class-extends-private", "class Base@N { b: @R = null as any; bm(): void {} }\nexport class C@N extends Base@N { constructor() { super(); } x: number = 1; }\n"),
  ("class-implements", "export class C@N implements PubI@N { a: @R = null as any; }\nexport interface PubI@N { a: @R }\n"),
  ("class-overloaded-method", "export class C@N {\n  m(a: string): string;\n  m(a: @R): @R;\n  m(a: any): any { return a; }\n}\n"),
  ("class-generic", "export class C@N<T extends @R = @R> { v!: T; m<U>(u: U): U { return u; } }\n"),
  ("class-decorated", "function dec@N(t: any, c?: any): any {}\n@dec@N\nexport class C@N { @dec@N p: number = 1; @dec@N m(): void {} }\n"),
  ("class-accessor-keyword", "export class C@N { accessor a: @R = null as any; }\n"),
  ("class-member-ref", "export class C@N { prop: @R = null as any; static sp: number = 1; }\nexport type MR@N = C@N[\"prop\"];\nexport type SR@N = typeof C@N.sp;\n"),
  ("class-computed-members", "export class C@N { [Symbol.iterator](): Iterator<@R> { return null as any; } [\"lit\"]: number = 1; static readonly [Symbol.species]?: number; }\n"),
  ("class-super-member-expr", "namespace Bases@N { export class B { b: @R = null as any; } }\nexport class C@N extends Bases@N.B {}\n"),
  ("class-super-call", "function mixin@N(): typeof Object { return Object; }\nexport class C@N extends mixin@N() {}\n"),
  ("unique-symbol", "export const s@N = Symbol(\"x\");\nexport const t@N: unique symbol = Symbol();\n"),
  ("mapped-type", "export type M@N = { [K in keyof @R]?: @R[K] };\nexport type Cond@N<T> = T extends @R ? T : never;\n"),
  ("template-literal", "export type TL@N = `pre-${string}`;\nexport const tl@N = `a${1}b`;\n"),
  ("satisfies", "export const c@N = { a: 1 } satisfies Record<string, number>;\n"),
  ("type-assertion", "export const c@N = <@R>(null as any);\n"),
  ("return-inference", "export function f@N() { return 1; }\nexport function g@N() { return \"s\"; }\nexport function h@N() {}\nexport async function i@N() {}\n"),
  ("override-and-optional-method", "class Base@N { m(): void {} }\nexport class C@N extends Base@N { override m(): void {} opt?(): @R; }\n"),
  ("export-name-string", "const v@N: @R = null as any;\nexport { v@N as \"str-name@N\" };\n"),
  ("abstract-class", "export abstract class A@N { abstract am(x: @R): @R; protected abstract readonly ap: number; concrete(): void {} }\n"),
  ("function-this-param", "export function f@N(this: @R, a: number): void {}\n"),
  ("getter-inferred", "export class C@N { get g() { return 1; } set g(v) {} }\n"),
  ("arrow-generic-async", "export const c@N = async <T,>(a: T): Promise<T> => a;\n"),
  ("declare-exports", "export declare const dc@N: @R;\nexport declare function df@N(a: @R): void;\n"),
  ("const-in-function-type", "export const c@N: (a: @R) => @R = (a) => a;\nexport let fnv@N: { (x: @R): void; new (y: number): @R };\n"),
  ("reexport-one-name-of-c", "export type { CT } from \"./c.ts\";\n"),
  ("interface", "export interface I@N { a: @R; m(x: @R): @R; readonly [k: string]: any; }\n"),
  ("interface-extends", "interface BaseI@N { z: @R }\nexport interface I@N extends BaseI@N { y: number }\n"),
  ("type-alias", "export type T@N = @R | string;\n"),
  ("type-generic", "export type T@N<A = @R> = { v: A; w: @R };\n"),
  ("enum", "export enum E@N { A, B = 2, C = \"c\" }\n"),
  ("const-enum", "export const enum E@N { A = 1 }\n"),
  ("namespace", "export namespace N@N { export type X = @R; export const v: number = 1; export function nf(a: @R): void {} const hidden = 1; }\n"),
  ("namespace-nested", "export namespace N@N { export namespace Inner { export type Y = @R; } }\n"),
  ("namespace-dotted", "export namespace N@N.Mid.Leaf { export type Y = @R; export const dv: number = 1; }\n"),
  ("namespace-dotted-4", "export namespace N@N.P.Q.R { export interface DI { v: @R } }\n"),
  ("expando", "export function e@N(): void {}\ne@N.prop = 1;\ne@N.other = \"s\";\n"),
  ("default-class", "export default class Def@N { x: @R = null as any; }\n"),
  ("default-function", "export default function (a: @R): @R { return a; }\n"),
  ("default-expression", "export default 5;\n"),
  ("reexport-named", "export { helper as h@N } from \"./b.ts\";\n"),
  ("reexport-star", "export * from \"./b.ts\";\n"),
  ("reexport-star-as", "export * as ns@N from \"./b.ts\";\n"),
  ("reexport-star-barrel", "export * from \"./barrel.ts\";\n"),
  ("reexport-star-jsr", "export * from \"jsr:@s/b@1\";\n"),
  ("reexport-named-jsr", "export { depV as dv@N, default as DepD@N } from \"jsr:@s/b@1\";\n"),
  ("export-local-list", "const loc@N: @R = null as any;\ntype LT@N = @R;\nexport { loc@N, type LT@N as Alias@N };\n"),
  ("import-equals", "namespace Q@N { export type W = @R; }\nimport W@N = Q@N.W;\nexport type T@N = W@N;\n"),
  ("typeof-value", "const tv@N = 1;\nexport type T@N = typeof tv@N;\n"),
  ("declare-global", "declare global { interface Window { g@N: number } }\nexport const c@N: number = 1;\n"),
  ("merged-fn-namespace", "export function m@N(): void {}\nexport namespace m@N { export type MT = @R; }\n"),
  ("merged-class-interface", "export class M@N { a: number = 1; }\nexport interface M@N { b: @R }\n"),
  // qualified names that continue past the first member: `typeof f.prop.sub`, `typeof v.prop`, `Merged.T`
  ("expando-fn-qualified-past-property", "function conf@N(opts: @R): void {}\nconf@N.defaults = { verbose: false };\nexport const verbose@N: typeof conf@N.defaults.verbose = false;\n"),
  ("expando-fn-qualified-property", "function conf@N(opts: @R): void {}\nconf@N.defaults = { verbose: false };\nexport const dflt@N: typeof conf@N.defaults = { verbose: true };\n"),
  ("qualified-typeof-private-var", "const cfg@N: @R = null as any;\nexport const v@N: typeof cfg@N.prop = null as any;\n"),
  ("qualified-typeof-private-var-deep", "const cfg@N: { inner: @R } = null as any;\nexport let w@N: typeof cfg@N.inner.prop;\n"),
  ("merged-class-namespace-qualified", "class Base@N { b: number = 1; }\nclass Foo@N extends Base@N { x: @R = null as any; }\nnamespace Foo@N { export type T = number; }\nexport type UseFoo@N = Foo@N.T;\n"),
  ("merged-fn-namespace-qualified", "function mf@N(a: @R): void {}\nnamespace mf@N { export type T = number; }\nexport type UseMf@N = mf@N.T;\n"),
  ("merged-enum-namespace-qualified", "enum Me@N { A = 1 }\nnamespace Me@N { export type T = @R; }\nexport type UseMe@N = Me@N.T;\n"),
  ("class-static-computed-members", "export class CSt@N { static [Symbol.iterator](): Iterator<@R> { return null as any; } static [Symbol.asyncIterator]: @R = null as any; static get [Symbol.toStringTag](): string { return \"x\"; } }\n"),
  // template literals with a call inside an expression that is kept
  ("leav-template-call-in-object", "function mk@N(): number { return 1; }\nexport const c@N = { id: `item-${mk@N()}`, n: 1 };\n"),
  ("leav-template-call-in-array", "function mk@N(): number { return 1; }\nexport const c@N = [`x${mk@N()}`, \"y\"];\n"),
  ("leav-template-new-in-class-prop", "export class CT@N { label = { t: `${new Date()}` }; static tags = [`t${Date.now()}`]; }\n"),
  ("leav-template-call-in-default-param", "function mk@N(): number { return 1; }\nexport function ft@N(a = { k: `v${mk@N()}` }): void {}\n"),
  // a decorator on the implementation of an overloaded method / on overloaded static methods and accessors
  ("class-overloaded-method-decorated", "function dec@N(...args: any[]): any {}\nfunction mkd@N(): number { return 1; }\nexport class CD@N { m(a: string): string; m(a: @R): @R; @dec@N(mkd@N()) m(a: any): any { return a; } static s(a: string): void; static s(a: number): void; @dec@N static s(a: any): void {} }\n"),
  ("unused-private", "type Unused@N = @R;\nfunction unusedFn@N(): void {}\nclass UnusedC@N {}\n"),
];

pub const B_BASE: &str = "export interface BT { b: number }\nexport type BU = string;\nexport const bv: number = 1;\nexport class BC { x: number = 1; }\nexport namespace BN { export type Y = number; }\nexport function helper(): number { return 1; }\nexport default class DefB { d: number = 1; }\nconst unusedInB = 1;\n";

pub const SLOT0_ONLY: &[&str] = &[
  "class-overloaded-method-decorated",
  "expando-fn-qualified-past-property", "expando-fn-qualified-property", "qualified-typeof-private-var", "qualified-typeof-private-var-deep", "merged-class-namespace-qualified", "merged-fn-namespace-qualified", "merged-enum-namespace-qualified", "class-static-computed-members",
  "leav-template-call-in-object", "leav-template-call-in-array", "leav-template-new-in-class-prop", "leav-template-call-in-default-param",
  "leav-bin-call-left", "leav-bin-call-right", "leav-cond-call-test", "leav-cond-call-cons", "leav-cond-call-alt", "leav-member-computed-call", "leav-member-of-call-object", "leav-object-spread-first", "leav-object-spread-last", "leav-array-spread-first", "leav-seq-then-literal", "leav-unary-of-call", "leav-as-const-with-call", "leav-nested-object-call-first",
  "class-expression", "class-expression-named-extends", "index-signature", "constructor-overloads", "enum-referencing-private",
  "declare-module-augmentation", "type-predicates", "this-return-and-rest", "es-private-and-static-block", "accessor-pair",
  "as-const-and-tuples", "conditional-and-recursive-types", "literal-initialisers", "new-with-type-arguments",
  "declare-fields-and-protected", "export-import-equals", "function-destructured-and-rest", "object-with-accessors-and-spread",
  "top-level-await-initialiser", "generator-and-async-methods", "typelit-computed-property-key", "typelit-computed-accessor-keys",
  "interface-computed-keys", "class-prop-typed-arrow-no-return", "const-untyped-arrow-in-object", "mapped-type", "template-literal",
  "satisfies", "type-assertion", "function-this-param", "arrow-generic-async", "const-in-function-type",
];

pub const B_DECLS: &[(&str, &str)] = &[
  ("none", ""),
  ("b-fn-no-return-type", "export function bad@N(a: number) { return a; }\n"),
  ("b-private-chain", "type BPriv = { z: number };\nexport type BChain = BPriv;\n"),
  ("b-imports-c", "import { CT } from \"./c.ts\";\nexport type FromC = CT;\n"),
  ("b-reexports-c", "export * from \"./c.ts\";\n"),
  ("b-unused", "function bUnused@N(): void {}\n"),
  ("b-imports-cv", "import { cv } from \"./c.ts\";\nexport const fromCv: typeof cv = 1;\n"),
  ("b-imports-cg", "import { cg } from \"./c.ts\";\nexport const fromCg: typeof cg = cg;\n"),
];

/// c.ts: two names that different modules ask for separately (so the module is
/// traced more than once), each leading to an overloaded function whose
/// implementation signature mentions a type nothing public refers to
pub const C_SRC: &str = "interface COptsA { a: string }\ninterface COptsB { b: string }\nexport function cf(v: string): string;\nexport function cf(v: number): number;\nexport function cf(v: COptsA | string | number): string | number { return v as string; }\nexport function cg(v: string): string;\nexport function cg(v: number): number;\nexport function cg(v: COptsB | string | number): string | number { return v as string; }\nexport interface CT { c: number; f?: typeof cf }\nexport const cv: number = 1;\n";

pub struct GenPkg {
  pub pkg: FcPackage,
  /// the dependency package @s/b (also imported by the root program)
  pub dep: FcPackage,
  /// identifiers of declarations that are neither exported nor referenced
  pub unused_markers: Vec<String>,
  pub decl_names: Vec<&'static str>,
  pub ref_names: Vec<&'static str>,
}

pub fn gen_package(ch: &Ch, mod_slots: usize) -> GenPkg {
  let mut body = String::new();
  let mut needs: Vec<&'static str> = vec![];
  let mut decl_names = vec![];
  let mut ref_names = vec![];
  let mut unused = vec![];
  let mut has_default = false;
  let mut has_star = false;
  // the first slot chooses from every template; the later slots from all but
  // the SLOT0_ONLY ones (shapes that do not interact with their neighbours), which
  // keeps the three-deviation level of the quick tier affordable
  let narrow: Vec<(&str, &str)> = DECLS.iter().copied().filter(|(n, _)| !SLOT0_ONLY.contains(n)).collect();
  for n in 0..mod_slots {
    let (dn, tpl) = if n == 0 { DECLS[ch.choose("decl", DECLS.len())] } else { narrow[ch.choose("decl", narrow.len())] };
    if tpl.is_empty() {
      continue;
    }
    // a module has at most one default export / one star re-export of b.ts
    if dn.starts_with("default-") || dn == "export-as-default" {
      if has_default {
        continue;
      }
      has_default = true;
    }
    if dn == "reexport-star" || dn == "reexport-star-barrel" || dn == "reexport-star-jsr" {
      if has_star {
        continue;
      }
      has_star = true;
    }
    let (rn, need) = if tpl.contains("@R") { REFS[ch.choose("reference", REFS.len())] } else { ("number", "") };
    decl_names.push(dn);
    ref_names.push(rn);
    if !need.is_empty() {
      for line in need.split_inclusive('\n') {
        if !needs.contains(&line) {
          needs.push(line);
        }
      }
    }
    if dn == "unused-private" {
      unused.extend([format!("Unused{n}"), format!("unusedFn{n}"), format!("UnusedC{n}")]);
    }
    body.push_str(&tpl.replace("@R", rn).replace("@N", &n.to_string()));
  }
  let mut src = String::new();
  // imports first, then private declarations, then the body
  for l in needs.iter().filter(|l| l.starts_with("import")) {
    src.push_str(l);
  }
  for l in needs.iter().filter(|l| !l.starts_with("import")) {
    src.push_str(l);
  }
  src.push_str(&body);
  if body.is_empty() {
    src.push_str("export const only: number = 1;\n");
  }
  let (bn, btpl) = B_DECLS[ch.choose("b_decl", B_DECLS.len())];
  decl_names.push(bn);
  let b_src = format!("{B_BASE}{}", btpl.replace("@N", "9"));
  if bn == "b-unused" {
    unused.push("bUnused9".into());
  }
  unused.push("unusedInB".into());
  let second_entry = ch.choose("second_entrypoint", 3);
  let mut exports = vec![(".".to_string(), "./mod.ts".to_string())];
  match second_entry {
    1 => exports.push(("./b".to_string(), "./b.ts".to_string())),
    2 => exports.push(("./c".to_string(), "./c.ts".to_string())),
    _ => {}
  }
  let workspace = ch.choose("package_is_a_workspace_member", 2) == 1;
  GenPkg {
    pkg: FcPackage {
      name: "@s/a".into(),
      version: "1.0.0".into(),
      files: vec![
        ("/mod.ts".into(), src),
        ("/b.ts".into(), b_src),
        ("/c.ts".into(), C_SRC.to_string()),
        ("/barrel.ts".into(), BARREL_SRC.to_string()),
        ("/mid.ts".into(), MID_SRC.to_string()),
        ("/leaf.ts".into(), LEAF_SRC.to_string()),
      ],
      exports,
      workspace,
    },
    dep: FcPackage {
      name: "@s/b".into(),
      version: "1.0.0".into(),
      files: vec![("/mod.ts".into(), DEP_SRC.to_string())],
      exports: vec![(".".to_string(), "./mod.ts".to_string())],
      workspace: false,
    },
    unused_markers: unused,
    decl_names,
    ref_names,
  }
}
