mod engine;
mod env;
mod fc;
mod fcast;
mod fcgen;
mod obs;
mod props;
mod registry;
mod report;
mod walkref;
mod world;

use report::Tier;

fn main() {
  engine::install_panic_hook();
  let args: Vec<String> = std::env::args().skip(1).collect();
  if args.is_empty() {
    eprintln!("usage: dgmc <C01..C20> [--tier quick|thorough] [--replay <file>] [--part <name>]");
    std::process::exit(2);
  }
  if args[0] == "c16-probe" {
    std::process::exit(props::c16::probe_main(&args[1]));
  }
  if args[0] == "fc-probe" {
    // developer aid: print the fast-check output of a package given as files
    let ch = engine::Ch::new(vec![], false);
    let mut files = vec![];
    let mut i = 1;
    while i + 1 < args.len() {
      files.push((args[i].clone(), std::fs::read_to_string(&args[i + 1]).unwrap()));
      i += 2;
    }
    let pkg = fc::FcPackage { name: "@s/a".into(), version: "1.0.0".into(), exports: vec![(".".into(), format!(".{}", files[0].0))], workspace: false, files };
    let r = fc::fast_check(&[pkg], None, &ch).unwrap();
    for (u, (_, slot)) in &r.modules {
      println!("=== {u}");
      match slot {
        fc::FcSlot::Module { text, deps, .. } => println!("{text}
--- deps {deps}"),
        other => println!("{other:?}"),
      }
    }
    println!("graph errors: {:?}", r.graph_errors);
    return;
  }
  let id = args[0].to_uppercase();
  let mut tier = match std::env::var("VERIF_TIER").as_deref() {
    Ok("thorough") => Tier::Thorough,
    _ => Tier::Quick,
  };
  let mut replay: Option<String> = None;
  let mut part: Option<String> = None;
  let mut i = 1;
  while i < args.len() {
    match args[i].as_str() {
      "--tier" => {
        tier = if args[i + 1] == "thorough" { Tier::Thorough } else { Tier::Quick };
        i += 1;
      }
      "--replay" => {
        replay = Some(args[i + 1].clone());
        i += 1;
      }
      "--part" => {
        part = Some(args[i + 1].clone());
        i += 1;
      }
      other => {
        eprintln!("unknown argument {other}");
        std::process::exit(2);
      }
    }
    i += 1;
  }
  let Some(prop) = props::get(&id, tier) else {
    eprintln!("unknown property {id}; known: {:?}", props::ALL);
    std::process::exit(2);
  };
  let code = match replay {
    Some(f) => report::replay(&prop, &f),
    None => report::run_prop(&prop, tier, part.as_deref()),
  };
  std::process::exit(code);
}
