//! Canonical observation of a built graph and the shared build helper.

use crate::engine::Ch;
use crate::env::*;
use deno_ast::diagnostics::Diagnostic;
use deno_graph::BuildOptions;
use deno_graph::GraphKind;
use deno_graph::Module;
use deno_graph::ModuleGraph;
use deno_graph::ModuleSpecifier;
use deno_graph::ReferrerImports;
use deno_graph::Resolution;
use serde_json::Value;
use serde_json::json;
use std::rc::Rc;

pub struct BuildCfg<'a> {
  pub is_dynamic: bool,
  pub skip_dynamic_deps: bool,
  pub unstable_bytes: bool,
  pub unstable_text: bool,
  pub unstable_css: bool,
  pub unstable_config: bool,
  pub resolver: Option<&'a dyn deno_graph::source::Resolver>,
  pub npm: Option<&'a dyn deno_graph::source::NpmResolver>,
  pub passthrough_jsr: bool,
  pub prefer_cached_jsr_versions: bool,
  pub locker: Option<&'a mut dyn deno_graph::source::Locker>,
  pub imports: Vec<ReferrerImports>,
  pub executor: Option<&'a dyn deno_graph::Executor>,
  pub jsr_version_resolver: Option<deno_graph::packages::JsrVersionResolver>,
  pub file_system: Option<&'a deno_graph::source::FileSystem>,
  pub sched_cost: bool,
  pub module_analyzer: Option<&'a dyn deno_graph::analysis::ModuleAnalyzer>,
  /// registry metadata shared between builds (non-default `jsr_metadata_store`)
  pub jsr_metadata_store: Option<Rc<deno_graph::JsrMetadataStore>>,
}

impl Default for BuildCfg<'_> {
  fn default() -> Self {
    BuildCfg {
      is_dynamic: false,
      skip_dynamic_deps: false,
      unstable_bytes: false,
      unstable_text: false,
      unstable_css: false,
      unstable_config: false,
      resolver: None,
      npm: None,
      passthrough_jsr: false,
      prefer_cached_jsr_versions: false,
      locker: None,
      imports: vec![],
      executor: None,
      jsr_version_resolver: None,
      file_system: None,
      sched_cost: true,
      module_analyzer: None,
      jsr_metadata_store: None,
    }
  }
}

static INLINE: InlineExecutor = InlineExecutor;

thread_local! {
  /// set by a check (C04) that installs its own order callback around a build
  pub static CALLER_OWNS_ORDER: std::cell::Cell<bool> = const { std::cell::Cell::new(false) };
}

/// Unless the caller explores the orders itself, every hash-ordered site of the
/// builder (two drains, the issue order of cache-only probes) is pinned to its
/// canonical (sorted) order for the duration of `f`, so that a run is a
/// function of its choice prefix and nothing else.
fn with_canonical_orders<T>(f: impl FnOnce() -> T) -> T {
  let owned = CALLER_OWNS_ORDER.with(|c| c.get());
  if !owned {
    deno_graph::verif_hooks::set_drain_order_callback(Some(Box::new(|_site, n| (0..n).collect())));
  }
  let r = f();
  if !owned {
    deno_graph::verif_hooks::set_drain_order_callback(None);
  }
  r
}

pub fn build_graph<'a>(
  graph: &mut ModuleGraph,
  roots: Vec<ModuleSpecifier>,
  loader: &'a ScriptedLoader,
  cfg: BuildCfg<'a>,
  ch: &Ch,
) -> Result<(), DriveError> {
  let sched: Rc<Sched> = loader.sched.clone();
  let executor: &'a dyn deno_graph::Executor = cfg.executor.unwrap_or(&INLINE);
  let mut options = BuildOptions {
    is_dynamic: cfg.is_dynamic,
    skip_dynamic_deps: cfg.skip_dynamic_deps,
    unstable_bytes_imports: cfg.unstable_bytes,
    unstable_text_imports: cfg.unstable_text,
    unstable_css_imports: cfg.unstable_css,
    unstable_config_imports: cfg.unstable_config,
    executor,
    locker: cfg.locker,
    passthrough_jsr_specifiers: cfg.passthrough_jsr,
    prefer_cached_jsr_versions: cfg.prefer_cached_jsr_versions,
    npm_resolver: cfg.npm,
    resolver: cfg.resolver,
    ..Default::default()
  };
  if let Some(r) = cfg.jsr_version_resolver {
    options.jsr_version_resolver = std::borrow::Cow::Owned(r);
  }
  if let Some(fs) = cfg.file_system {
    options.file_system = fs;
  }
  if let Some(a) = cfg.module_analyzer {
    options.module_analyzer = a;
  }
  options.jsr_metadata_store = cfg.jsr_metadata_store;
  let sched_cost = cfg.sched_cost;
  let fut = graph.build(roots, cfg.imports, loader, options);
  with_canonical_orders(|| drive(fut, &sched, ch, sched_cost))
}

pub fn reload_graph<'a>(
  graph: &mut ModuleGraph,
  specifiers: Vec<ModuleSpecifier>,
  loader: &'a ScriptedLoader,
  cfg: BuildCfg<'a>,
  ch: &Ch,
) -> Result<(), DriveError> {
  let sched: Rc<Sched> = loader.sched.clone();
  let mut options = BuildOptions {
    is_dynamic: cfg.is_dynamic,
    skip_dynamic_deps: cfg.skip_dynamic_deps,
    unstable_bytes_imports: cfg.unstable_bytes,
    unstable_text_imports: cfg.unstable_text,
    executor: &INLINE,
    locker: cfg.locker,
    passthrough_jsr_specifiers: cfg.passthrough_jsr,
    npm_resolver: cfg.npm,
    resolver: cfg.resolver,
    ..Default::default()
  };
  if let Some(a) = cfg.module_analyzer {
    options.module_analyzer = a;
  }
  let fut = graph.reload(specifiers, loader, options);
  with_canonical_orders(|| drive(fut, &sched, ch, cfg.sched_cost))
}

pub fn res_json(r: &Resolution) -> Value {
  match r {
    Resolution::None => Value::Null,
    Resolution::Ok(ok) => json!({
      "specifier": ok.specifier.as_str(),
      "range": range_json(&ok.range),
    }),
    Resolution::Err(e) => json!({
      "error": e.to_string(),
      "range": range_json(e.range()),
    }),
  }
}

pub fn range_json(r: &deno_graph::Range) -> Value {
  json!(format!(
    "{}:{}:{}-{}:{}{}",
    r.specifier,
    r.range.start.line,
    r.range.start.character,
    r.range.end.line,
    r.range.end.character,
    match r.resolution_mode {
      None => "",
      Some(deno_graph::source::ResolutionMode::Import) => " [import]",
      Some(deno_graph::source::ResolutionMode::Require) => " [require]",
    }
  ))
}

pub fn dep_json(d: &deno_graph::Dependency) -> Value {
  json!({
    "code": res_json(&d.maybe_code),
    "type": res_json(&d.maybe_type),
    "deno_types": d.maybe_deno_types_specifier,
    "is_dynamic": d.is_dynamic,
    "attr": d.maybe_attribute_type,
    "imports": d.imports.iter().map(|i| json!({
      "specifier": i.specifier,
      "kind": format!("{:?}", i.kind),
      "range": range_json(&i.specifier_range),
      "is_dynamic": i.is_dynamic,
      "side_effect": i.is_side_effect,
      "attributes": format!("{:?}", i.attributes),
    })).collect::<Vec<_>>(),
  })
}

pub fn module_json(m: &Module, with_fast_check: bool) -> Value {
  match m {
    Module::Js(js) => {
      let mut v = json!({
        "kind": "js",
        "media_type": js.media_type.to_string(),
        "is_script": js.is_script,
        "size": js.size(),
        "source_hash": crate::engine::hash_of(js.source.text.as_ref()),
        "deps": js.dependencies.iter().map(|(k, d)| (k.clone(), dep_json(d))).collect::<serde_json::Map<_, _>>(),
        "types_dep": js.maybe_types_dependency.as_ref().map(|t| json!({"specifier": t.specifier, "dep": res_json(&t.dependency)})),
        "source_map_dep": js.maybe_source_map_dependency.as_ref().map(|t| json!({"specifier": t.specifier, "dep": res_json(&t.dependency)})),
      });
      if with_fast_check {
        v["fast_check"] = match &js.fast_check {
          None => Value::Null,
          Some(deno_graph::FastCheckTypeModuleSlot::Module(m)) => json!({
            "text": m.source.as_ref(),
            "source_map_hash": crate::engine::hash_of(&m.source_map[..]),
            "deps": m.dependencies.iter().map(|(k, d)| (k.clone(), dep_json(d))).collect::<serde_json::Map<_, _>>(),
          }),
          Some(deno_graph::FastCheckTypeModuleSlot::Error(d)) => json!({
            "diagnostics": d.iter().map(|d| format!("{} {}", d.code(), d)).collect::<Vec<_>>(),
          }),
        };
      }
      v
    }
    Module::Json(j) => json!({
      "kind": "json",
      "media_type": j.media_type.to_string(),
      "size": j.size(),
      "source_hash": crate::engine::hash_of(j.source.text.as_ref()),
    }),
    Module::Wasm(w) => json!({
      "kind": "wasm",
      "size": w.size(),
      "deps": w.dependencies.iter().map(|(k, d)| (k.clone(), dep_json(d))).collect::<serde_json::Map<_, _>>(),
    }),
    Module::Npm(n) => json!({"kind": "npm", "pkg_req_ref": n.pkg_req_ref.to_string()}),
    Module::Node(n) => json!({"kind": "node", "name": n.module_name}),
    Module::External(e) => json!({"kind": "external", "was_asset_load": e.was_asset_load}),
  }
}

/// Everything observable about a graph, canonicalised: unordered API results
/// are sorted, nothing the API shows is dropped.
pub fn obs(graph: &ModuleGraph) -> Value {
  let mut slots = serde_json::Map::new();
  for (spec, r) in graph.specifiers() {
    // redirect sources appear too; they are reported separately below
    if graph.redirects.contains_key(spec) {
      continue;
    }
    let v = match r {
      Ok(m) => module_json(m, true),
      Err(e) => json!({
        "error": e.to_string_with_range(),
        "error_text": e.to_string(),
        "error_kind": err_kind(e),
        "referrer": e.maybe_referrer().map(range_json),
        "err_specifier": e.specifier().as_str(),
      }),
    };
    slots.insert(spec.to_string(), v);
  }
  let serialized = serde_json::to_value(graph).unwrap();
  let pending: Vec<String> = serialized["modules"]
    .as_array()
    .map(|a| {
      a.iter()
        .filter(|m| {
          m["error"]
            .as_str()
            .is_some_and(|e| e.contains("[INTERNAL ERROR]"))
        })
        .map(|m| m["specifier"].as_str().unwrap_or("?").to_string())
        .collect()
    })
    .unwrap_or_default();
  let mut pkgs_with_deps: Vec<String> = graph
    .packages
    .packages_with_deps()
    .map(|(nv, deps)| {
      let mut d: Vec<String> = deps.map(|d| d.to_string()).collect();
      d.sort();
      format!("{nv} -> [{}]", d.join(", "))
    })
    .collect();
  pkgs_with_deps.sort();
  let mut mappings: Vec<String> = graph
    .packages
    .mappings()
    .iter()
    .map(|(k, v)| format!("{k} -> {v}"))
    .collect();
  mappings.sort();
  let mut pk = graph.packages.clone();
  let mut yanked: Vec<String> = pk
    .used_yanked_packages()
    .map(|p| p.to_string())
    .collect();
  yanked.sort();
  json!({
    "kind": format!("{:?}", graph.graph_kind()),
    "roots": graph.roots.iter().map(|r| r.as_str()).collect::<Vec<_>>(),
    "slots": slots,
    "redirects": graph.redirects.iter().map(|(k, v)| (k.to_string(), json!(v.as_str()))).collect::<serde_json::Map<_, _>>(),
    "imports": graph.imports.iter().map(|(k, v)| (k.to_string(), json!(v.dependencies.iter().map(|(k, d)| (k.clone(), dep_json(d))).collect::<serde_json::Map<_, _>>()))).collect::<serde_json::Map<_, _>>(),
    "has_node_specifier": graph.has_node_specifier,
    "npm_dep_graph_result": graph.npm_dep_graph_result.as_ref().err().map(|e| e.get_message().to_string()),
    "pending_slots": pending,
    "mappings": mappings,
    "packages_with_deps": pkgs_with_deps,
    "yanked": yanked,
    "serialized": serialized,
  })
}

pub fn err_kind(e: &deno_graph::ModuleError) -> String {
  use deno_graph::ModuleErrorKind as K;
  match e.as_kind() {
    K::Load { err, .. } => format!("Load:{}", load_err_kind(err)),
    K::Missing { .. } => "Missing".into(),
    K::MissingDynamic { .. } => "MissingDynamic".into(),
    K::Parse { .. } => "Parse".into(),
    K::WasmParse { .. } => "WasmParse".into(),
    K::UnsupportedMediaType { .. } => "UnsupportedMediaType".into(),
    K::InvalidTypeAssertion { .. } => "InvalidTypeAssertion".into(),
    K::UnsupportedImportAttributeType { .. } => "UnsupportedImportAttributeType".into(),
    #[allow(unreachable_patterns)]
    _ => "Other".into(),
  }
}

fn load_err_kind(e: &deno_graph::ModuleLoadError) -> String {
  let s = format!("{e:?}");
  s.split(|c: char| !c.is_alphanumeric())
    .next()
    .unwrap_or("?")
    .to_string()
}

pub fn kind_all() -> [GraphKind; 3] {
  [GraphKind::All, GraphKind::CodeOnly, GraphKind::TypesOnly]
}
