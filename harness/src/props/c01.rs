//! C01 — a built graph is exactly the dependency closure of its roots, and
//! each module's recorded dependencies match what its source declares.

use crate::engine::*;
use crate::env::*;
use crate::obs::*;
use crate::report::*;
use crate::world::*;
use deno_graph::GraphKind;
use deno_graph::ModuleGraph;
use deno_graph::ModuleSpecifier;
use deno_graph::Resolution;
use indexmap::IndexMap;
use serde_json::Value;
use serde_json::json;
use std::collections::BTreeSet;

#[derive(Clone, Debug, PartialEq)]
enum Res {
  Ok(String),
  Err,
}

#[derive(Clone, Debug, Default, PartialEq)]
struct ExpDep {
  code: Option<Res>,
  ty: Option<Res>,
  is_dynamic: bool,
  attr: Option<String>,
  /// (import kind, is_dynamic) in source order
  imports: Vec<(String, bool)>,
  /// every import of this dependency is an asset import (text/bytes/source phase)
  all_asset: bool,
}

struct ExpModule {
  deps: IndexMap<String, ExpDep>,
  types_dep: Option<(String, Res)>,
}

#[derive(Clone, Copy, Debug)]
struct Cfg {
  kind: GraphKind,
  skip_dynamic: bool,
  is_dynamic_root: bool,
  unstable: bool,
  /// resolver present (bare-specifier map + resolve_types table), npm
  /// resolver present, jsr passthrough, one configured type import
  rich: bool,
}

thread_local! {
  /// (resolver in use?, what "bare-pkg" maps to)
  static BARE: std::cell::RefCell<Option<String>> = const { std::cell::RefCell::new(None) };
}

fn resolve(text: &str, referrer: &ModuleSpecifier) -> Res {
  if matches!(text, "bare-pkg" | "jsxlib/jsx-runtime" | "jsxtypes/jsx-runtime")
    && let Some(t) = BARE.with(|b| b.borrow().clone())
  {
    return Res::Ok(t);
  }
  // otherwise the crate's documented default resolution
  match deno_graph::resolve_import(text, referrer) {
    Ok(u) => Res::Ok(u.to_string()),
    Err(_) => Res::Err,
  }
}

fn attr_text(a: Attr) -> Option<String> {
  match a {
    Attr::None => None,
    Attr::Json => Some("json".into()),
    Attr::Text => Some("text".into()),
    Attr::Bytes => Some("bytes".into()),
  }
}

/// Reference rules: what module `i`'s source declares, as recorded
/// dependencies under graph kind `kind` (anchors: graph.rs
/// parse_js_module_from_module_info / fill_module_dependencies /
/// visit_module / visit_module_dependencies).
fn expected_module(w: &World, i: usize, cfg: &Cfg) -> ExpModule {
  let kind = w.kinds[i];
  let me = w.url(i);
  let types = cfg.kind != GraphKind::CodeOnly;
  let typed = kind.is_ts();
  let declaration = kind == Kind::Dts;
  let mut deps: IndexMap<String, ExpDep> = IndexMap::new();
  let mut types_dep: Option<(String, Res)> = None;
  let my_edges: Vec<&Edge> = w.edges.iter().filter(|e| e.src == i).collect();
  let new_dep = || ExpDep {
    all_asset: true,
    ..Default::default()
  };
  if types {
    // the self-types pragma only counts in untyped modules
    if !typed
      && let Some(e) = my_edges.iter().find(|e| e.form == Form::SelfTypes)
    {
      let t = w.target_text(e.dst);
      types_dep = Some((t.clone(), resolve(&t, &me)));
    }
    for e in &my_edges {
      let t = w.target_text(e.dst);
      match e.form {
        Form::RefPath => {
          let d = deps.entry(t.clone()).or_insert_with(new_dep);
          if d.ty.is_none() {
            d.ty = Some(resolve(&t, &me));
          }
          d.imports.push(("TsReferencePath".into(), false));
          d.all_asset = false;
        }
        Form::RefTypes => {
          if !typed && types_dep.is_some() {
            continue;
          }
          if !typed {
            types_dep = Some((t.clone(), resolve(&t, &me)));
          } else {
            let d = deps.entry(t.clone()).or_insert_with(new_dep);
            if d.ty.is_none() {
              d.ty = Some(resolve(&t, &me));
            }
            d.imports.push(("TsReferenceTypes".into(), false));
            d.all_asset = false;
          }
        }
        _ => {}
      }
    }
  }
  // the import source of a JSX module: its own pragma, else the resolver's default
  let jsx_pragma = my_edges.iter().find(|e| e.form == Form::JsxPragma);
  let jsx_source: Option<String> = if !kind.is_jsx() {
    None
  } else if let Some(e) = jsx_pragma {
    Some(w.target_text(e.dst))
  } else if cfg.rich {
    Some("jsxlib".to_string())
  } else {
    None
  };
  if let Some(source) = jsx_source {
    let t = format!("{source}/jsx-runtime");
    let d = deps.entry(t.clone()).or_insert_with(new_dep);
    if d.code.is_none() {
      d.code = Some(resolve(&t, &me));
    }
    if types && d.ty.is_none() {
      if jsx_pragma.is_none() && cfg.rich {
        // the resolver's default types source applies only without a pragma
        d.ty = Some(resolve("jsxtypes/jsx-runtime", &me));
      }
      // otherwise the types resolution equals the code one: nothing recorded
    }
    d.imports.push(("JsxImportSource".into(), false));
    d.all_asset = false;
  }
  if types && matches!(kind, Kind::Js | Kind::Jsx) {
    for e in my_edges.iter().filter(|e| e.form == Form::JsDoc) {
      let t = w.target_text(e.dst);
      let d = deps.entry(t.clone()).or_insert_with(new_dep);
      if d.ty.is_none() {
        d.ty = Some(resolve(&t, &me));
      }
      d.imports.push(("JsDoc".into(), false));
      d.all_asset = false;
    }
  }
  if types
    && types_dep.is_none()
    && let Some((on, to)) = w.types_header
    && on == i
  {
    let t = w.spec(to);
    types_dep = Some((t.clone(), resolve(&t, &me)));
  }
  // the resolver's resolve_types table: untyped modules without any other types dependency
  if cfg.rich && types && types_dep.is_none() && !typed {
    let to = (i + 1) % w.kinds.len();
    types_dep = Some((me.to_string(), Res::Ok(w.spec(to))));
  }
  // ES dependencies in source order
  for e in &my_edges {
    let t = w.target_text(e.dst);
    let carries_attr = matches!(
      e.form,
      Form::Import
        | Form::SideEffect
        | Form::ExportStar
        | Form::ExportNamed
        | Form::Dynamic
        | Form::StaticAndDynamic
        | Form::DynamicAndStatic
        | Form::TsTypesPragma
        | Form::ImportType
        | Form::ExportType
    );
    let attr = match e.dst {
      Target::Spec(d) if carries_attr => w.attrs[d],
      _ => Attr::None,
    };
    // (kind, dynamic, side effect)
    let items: Vec<(&str, bool, bool)> = match e.form {
      Form::Import | Form::ExportStar | Form::ExportNamed | Form::TsTypesPragma | Form::ImportEquals => {
        vec![("Es", false, false)]
      }
      Form::SideEffect => vec![("Es", false, true)],
      Form::ImportType | Form::ExportType | Form::ImportTypeExpr | Form::ImportTypeInNamespace => vec![("TsType", false, false)],
      Form::Dynamic | Form::DynamicInNamespace => vec![("Es", true, false)],
      Form::StaticAndDynamic => vec![("Es", false, false), ("Es", true, false)],
      Form::DynamicAndStatic => vec![("Es", true, false), ("Es", false, false)],
      Form::ImportSource => vec![("EsSource", false, false)],
      Form::DeclareModule => vec![("TsModuleAugmentation", false, false)],
      Form::Require => vec![("Require", true, false)],
      Form::RefPath | Form::RefTypes | Form::SelfTypes | Form::JsDoc | Form::JsxPragma => vec![],
    };
    for (ik, dynamic, side_effect) in items {
      if !types && matches!(ik, "TsType" | "TsModuleAugmentation") {
        continue;
      }
      let d = deps.entry(t.clone()).or_insert_with(new_dep);
      if d.attr.is_none() {
        d.attr = attr_text(attr);
      }
      if e.form == Form::TsTypesPragma && types && d.ty.is_none() {
        d.ty = Some(resolve(&w.target_text(Target::Spec(e.aux)), &me));
      }
      if matches!(ik, "TsType" | "TsModuleAugmentation") {
        if d.ty.is_none() {
          d.ty = Some(resolve(&t, &me));
        }
      } else if !declaration {
        if d.code.is_none() {
          d.code = Some(resolve(&t, &me));
          d.is_dynamic = dynamic;
        } else {
          d.is_dynamic = d.is_dynamic && dynamic;
        }
      }
      if types && d.ty.is_none() {
        let r = resolve(&t, &me);
        let same_as_code = match (&r, &d.code) {
          (Res::Ok(a), Some(Res::Ok(b))) => a == b,
          (Res::Err, None) | (Res::Err, Some(Res::Err)) => true,
          _ => false,
        };
        let side_effect_error = side_effect && r == Res::Err;
        if !side_effect_error && !same_as_code {
          d.ty = Some(r);
        }
      }
      let asset_import = matches!(attr, Attr::Text | Attr::Bytes) || ik == "EsSource";
      d.all_asset = d.all_asset && asset_import;
      d.imports.push((ik.to_string(), dynamic));
    }
  }
  // an augmentation that resolves to nothing induces no dependency
  if typed {
    deps.retain(|_, d| {
      if matches!(d.ty, Some(Res::Ok(_))) {
        return true;
      }
      d.imports.retain(|(k, _)| k != "TsModuleAugmentation");
      !d.imports.is_empty()
    });
  }
  // what the builder does with the edges it does not follow
  if cfg.kind == GraphKind::TypesOnly && types_dep.is_some() {
    deps.clear();
  }
  for d in deps.values_mut() {
    if d.is_dynamic && cfg.skip_dynamic {
      continue;
    }
    if cfg.kind == GraphKind::TypesOnly && d.ty.is_some() {
      d.code = None;
    }
  }
  if !types {
    types_dep = None;
  }
  ExpModule { deps, types_dep }
}

fn res_of(r: &Resolution) -> Option<Res> {
  match r {
    Resolution::None => None,
    Resolution::Ok(o) => Some(Res::Ok(o.specifier.to_string())),
    Resolution::Err(_) => Some(Res::Err),
  }
}

/// Least set of specifiers (slots and redirect sources) reachable from the
/// roots under the follow rules, plus the expected slot class where the
/// rules determine it.
fn expected_closure(w: &World, cfg: &Cfg) -> Option<BTreeSet<String>> {
  let mut present: BTreeSet<String> = BTreeSet::new();
  // (specifier, loaded as asset?)
  let mut work: Vec<(String, bool, Option<String>)> = w.roots().iter().map(|r| (r.to_string(), false, None)).collect();
  if cfg.rich {
    // the configured type import is loaded like an attribute-less import
    work.push((w.spec(w.kinds.len() - 1), false, None));
  }
  let mut expanded: BTreeSet<usize> = BTreeSet::new();
  let index_of = |s: &str| (0..w.kinds.len()).find(|i| w.spec(*i) == s);
  while let Some((s, as_asset, attr)) = work.pop() {
    let Some(mut i) = index_of(&s) else {
      // specifiers outside the world's table (node:, npm:, data:, the http /
      // file-literal targets, a jsx runtime): they get an entry - a module
      // or an error - and have no further imports
      present.insert(s);
      continue;
    };
    // an asset import whose attribute type is not enabled is rejected before
    // anything is loaded: an error entry at the requested specifier
    if as_asset && matches!(attr.as_deref(), Some("text" | "bytes")) && !cfg.unstable {
      present.insert(s);
      continue;
    }
    // a source-phase import of something that is not wasm (by extension) is
    // rejected the same way
    if attr.as_deref() == Some("<source-phase>") && !s.ends_with(".wasm") {
      present.insert(s);
      continue;
    }
    // loader redirects
    let mut hops = 0;
    loop {
      present.insert(w.spec(i));
      if w.kinds[i] == Kind::Redirect {
        // an attribute the loader is not allowed to serve stops before loading
        i = w.redirect_to[i];
        hops += 1;
        if hops > w.kinds.len() {
          return None; // redirect cycle: C14's subject
        }
      } else {
        break;
      }
    }
    let k = w.kinds[i];
    if !k.has_source() || as_asset {
      continue;
    }
    // a JSON attribute on a JS/TS file is an assertion error: not parsed
    if attr.as_deref() == Some("json") {
      continue;
    }
    if !expanded.insert(i) {
      continue;
    }
    let m = expected_module(w, i, cfg);
    let me = w.url(i);
    let follow_deps = cfg.kind != GraphKind::TypesOnly || m.types_dep.is_none();
    // NB expected_module already cleared the dependencies in that case
    if follow_deps {
      for d in m.deps.values() {
        if d.is_dynamic && cfg.skip_dynamic {
          continue;
        }
        let asset = d.all_asset;
        let source_phase = d.imports.iter().any(|(k, _)| k == "EsSource");
        if let Some(Res::Ok(c)) = &d.code {
          work.push((c.clone(), asset, if source_phase && asset { Some("<source-phase>".into()) } else { d.attr.clone() }));
        }
        if cfg.kind != GraphKind::CodeOnly
          && let Some(Res::Ok(t)) = &d.ty
        {
          work.push((t.clone(), asset, d.attr.clone()));
        }
      }
    }
    if cfg.kind != GraphKind::CodeOnly
      && let Some((_, Res::Ok(t))) = &m.types_dep
    {
      work.push((t.clone(), false, None));
    }
    let _ = me;
  }
  Some(present)
}

fn body(space: Space) -> impl Fn(&Ch) -> Run + Sync + Send {
  move |ch: &Ch| {
    let mut run = Run::default();
    let w = space.generate(ch, 2, None);
    let clobber = w.has_source_phase_clobber();
    let mut outcomes = vec![];
    for kind in kind_all() {
      // every combination of the three boolean build options under default
      // resolution, plus the rich resolver configuration and the lockfile-seeded one
      let mut option_sets: Vec<(bool, bool, bool, bool, bool)> = vec![];
      for skip_dynamic in [false, true] {
        for is_dynamic_root in [false, true] {
          for unstable in [true, false] {
            option_sets.push((skip_dynamic, is_dynamic_root, unstable, false, false));
          }
        }
      }
      option_sets.push((false, false, true, true, false));
      option_sets.push((false, false, true, false, true));
      for (skip_dynamic, is_dynamic_root, unstable, rich, seeded) in option_sets {
        // the rich configuration needs an attribute-less last specifier (the
        // configured import is an attribute-less import of it)
        let n = w.kinds.len();
        if rich && (w.attrs[n - 1] != Attr::None || w.attrs[w.final_target(n - 1)] != Attr::None) {
          continue;
        }
        // ... and what the resolve_types table points an untyped module at is
        // an attribute-less load too (same-attribute proviso)
        if rich && (0..n).any(|i| matches!(w.kinds[i], Kind::Js | Kind::Jsx) && (w.attrs[(i + 1) % n] != Attr::None || w.attrs[w.final_target((i + 1) % n)] != Attr::None)) {
          continue;
        }
        let cfg = Cfg {
          kind,
          skip_dynamic,
          is_dynamic_root,
          unstable,
          rich,
        };
        BARE.with(|b| *b.borrow_mut() = if rich { Some(w.spec(n - 1)) } else { None });
        let sched = Sched::new(SchedMode::Immediate);
        let loader = ScriptedLoader::new(sched);
        w.install(&loader);
        let resolver = MapResolver {
          bare: ["bare-pkg", "jsxlib/jsx-runtime", "jsxtypes/jsx-runtime"].iter().map(|k| (k.to_string(), w.spec(n - 1))).collect(),
          types: (0..n).filter(|i| matches!(w.kinds[*i], Kind::Js | Kind::Jsx)).map(|i| (w.url(i), w.url((i + 1) % n))).collect(),
          jsx_import_source: Some("jsxlib".into()),
          jsx_import_source_types: Some("jsxtypes".into()),
        };
        let npm = ScriptedNpmResolver::default();
        let mut g = ModuleGraph::new(kind);
        let mut seeded_extra: BTreeSet<String> = BTreeSet::new();
        if seeded {
          // the lockfile already knows the redirects the build is going to meet
          let Some(want) = expected_closure(&w, &cfg) else { continue };
          let pairs: Vec<(String, String)> = (0..n)
            .filter(|i| w.kinds[*i] == Kind::Redirect && want.contains(&w.spec(*i)))
            .map(|i| (w.spec(i), w.spec(w.redirect_to[i])))
            .collect();
          // (fill_from_lockfile ignores file: redirects)
          if pairs.is_empty() || !w.remote {
            continue; // same as the default configuration
          }
          // a rejected source-phase import leaves its error entry at the
          // specifier the request resolves to - with the redirect known up
          // front that is the end of the chain, not the redirecting specifier
          for e in &w.edges {
            if e.form == Form::ImportSource
              && let Target::Spec(d) = e.dst
              && w.kinds[d] == Kind::Redirect
              && want.contains(&w.spec(d))
            {
              seeded_extra.insert(w.spec(w.final_target(d)));
            }
          }
          g.fill_from_lockfile(deno_graph::FillFromLockfileOptions {
            redirects: pairs.iter().map(|(a, b)| (a.as_str(), b.as_str())),
            package_specifiers: std::iter::empty(),
          });
        }
        if build_graph(
          &mut g,
          w.roots(),
          &loader,
          BuildCfg {
            skip_dynamic_deps: skip_dynamic,
            is_dynamic: is_dynamic_root,
            unstable_bytes: unstable,
            unstable_text: unstable,
            resolver: if rich { Some(&resolver) } else { None },
            npm: if rich { Some(&npm) } else { None },
            passthrough_jsr: rich,
            imports: if rich {
              vec![deno_graph::ReferrerImports { referrer: url(&format!("{}deno.json", w.base())), imports: vec![format!("./{}", w.kinds[n - 1].file_name(n - 1))] }]
            } else {
              vec![]
            },
            ..Default::default()
          },
          ch,
        )
        .is_err()
        {
          run.violate("build-did-not-finish", "deadlock", w.describe());
          continue;
        }
        run.evals += 1;
        let case = |extra: Value| json!({"world": w.describe(), "graph_kind": format!("{kind:?}"), "skip_dynamic_deps": skip_dynamic, "is_dynamic": is_dynamic_root, "unstable_text_bytes": unstable, "resolver+npm_resolver+jsr_passthrough+configured_import": rich, "redirects_seeded_from_lockfile": seeded, "detail": extra});
        // with the rich configuration the last specifier is also loaded by the
        // configured import and is what "bare-pkg" resolves to
        let clobber_rich = rich
          && w.edges.iter().any(|e| {
            e.form == Form::ImportSource
              && w.kinds[n - 1] != Kind::Wasm
              && (e.dst == Target::Bare || matches!(e.dst, Target::Spec(d) if d == n - 1))
          })
          // ... or what the resolver's resolve_types table loads for an untyped module
          || rich
            && w.edges.iter().any(|e| {
              e.form == Form::ImportSource
                && matches!(e.dst, Target::Spec(d) if w.kinds[w.final_target(d)] != Kind::Wasm
                  && (0..n).any(|i| matches!(w.kinds[i], Kind::Js | Kind::Jsx) && w.final_target((i + 1) % n) == w.final_target(d)))
            });
        let sig = |s: String| {
          if clobber || clobber_rich {
            // identified by what goes wrong in the clobber world, so that a
            // different defect in such a world is not swallowed as known
            format!("source-phase-import-of-loaded-specifier-clobbers-its-slot:{s}")
          } else {
            s
          }
        };
        // ---- (1) recorded dependencies = declared dependencies
        for i in 0..w.kinds.len() {
          let Some(deno_graph::Module::Js(js)) = g.get(&w.url(i)) else {
            continue;
          };
          if js.specifier != w.url(i) {
            continue; // reached through a redirect: checked at its own specifier
          }
          let exp = expected_module(&w, i, &cfg);
          let got: IndexMap<String, ExpDep> = js
            .dependencies
            .iter()
            .map(|(k, d)| {
              (
                k.clone(),
                ExpDep {
                  code: res_of(&d.maybe_code),
                  ty: res_of(&d.maybe_type),
                  is_dynamic: d.is_dynamic,
                  attr: d.maybe_attribute_type.clone(),
                  imports: d.imports.iter().map(|im| (format!("{:?}", im.kind), im.is_dynamic)).collect(),
                  all_asset: false,
                },
              )
            })
            .collect();
          let mut expn = exp.deps.clone();
          for d in expn.values_mut() {
            d.all_asset = false;
          }
          if got != expn {
            // name the first differing field for the signature
            let mut field = "set-of-specifier-texts".to_string();
            for (k, e) in &expn {
              if let Some(a) = got.get(k) {
                if a.code != e.code {
                  field = "code-target".into();
                } else if a.ty != e.ty {
                  field = "type-target".into();
                } else if a.is_dynamic != e.is_dynamic {
                  field = "is_dynamic".into();
                } else if a.attr != e.attr {
                  field = "attribute".into();
                } else if a.imports != e.imports {
                  field = "imports".into();
                } else {
                  continue;
                }
                break;
              }
            }
            run.violate(
              sig(format!("recorded-dependencies-differ-from-declared@{field}")),
              format!("{}: recorded {} but the source declares {}", w.spec(i), fmt_deps(&got), fmt_deps(&expn)),
              case(json!({"module": w.spec(i)})),
            );
          }
          let got_td = js
            .maybe_types_dependency
            .as_ref()
            .map(|t| (t.specifier.clone(), res_of(&t.dependency).unwrap_or(Res::Err)));
          if got_td != exp.types_dep {
            run.violate(
              sig("types-dependency-differs-from-declared".to_string()),
              format!("{}: recorded types dependency {:?}, the source declares {:?}", w.spec(i), got_td, exp.types_dep),
              case(json!({"module": w.spec(i)})),
            );
          }
        }
        // ---- (2) closure both ways
        if let Some(mut want) = expected_closure(&w, &cfg) {
          want.extend(seeded_extra.iter().cloned());
          let mut have: BTreeSet<String> = BTreeSet::new();
          for (s, _) in g.specifiers() {
            have.insert(s.to_string());
          }
          for k in g.redirects.keys() {
            have.insert(k.to_string());
          }
          outcomes.push(hash_of(&have));
          if have != want {
            let extra: Vec<_> = have.difference(&want).cloned().collect();
            let lacking: Vec<_> = want.difference(&have).cloned().collect();
            run.violate(
              sig(format!(
                "graph-is-not-the-closure@{kind:?}:{}",
                if extra.is_empty() { "reachable-absent" } else if lacking.is_empty() { "unreachable-present" } else { "both" }
              )),
              format!("present but not reachable: {extra:?}; reachable but absent: {lacking:?}"),
              case(json!({"present": have, "closure": want})),
            );
          }
          // ---- (3) single entry per specifier, every loader redirect recorded
          let log = loader.log.borrow();
          let mut loads: std::collections::BTreeMap<String, usize> = Default::default();
          // content loads only: a redirecting specifier may be asked again
          for c in log.iter().filter(|c| c.kind == "load" && c.answer.starts_with("module ")) {
            *loads.entry(c.specifier.to_string()).or_default() += 1;
          }
          for (s, n) in &loads {
            // documented exception: an asset load upgraded to a module load
            let asset_first = log.iter().any(|c| c.kind == "ensure_cached" && c.specifier.as_str() == s);
            if *n > 1 && !(asset_first && *n == 2) {
              run.violate(
                sig("specifier-loaded-more-than-once".to_string()),
                format!("{s} was loaded {n} times"),
                case(json!({})),
              );
            }
          }
          for c in log.iter() {
            if let Some(to) = c.answer.strip_prefix("redirect ")
              && g.redirects.get(&c.specifier).map(|u| u.as_str()) != Some(to)
            {
              run.violate(
                sig("loader-redirect-not-recorded".to_string()),
                format!("{} answered with a redirect to {to}; graph.redirects has {:?}", c.specifier, g.redirects.get(&c.specifier).map(|u| u.as_str())),
                case(json!({})),
              );
            }
          }
          // ---- (4) slot kind where the world determines it
          for i in 0..w.kinds.len() {
            if w.attrs[i] != Attr::None || !want.contains(&w.spec(i)) {
              continue;
            }
            let imported_at_source_phase = w.edges.iter().any(|e| e.form == Form::ImportSource && matches!(e.dst, Target::Spec(d) if w.final_target(d) == i));
            if imported_at_source_phase {
              continue;
            }
            let expect = match w.kinds[i] {
              Kind::Ts | Kind::Js | Kind::Dts | Kind::Tsx | Kind::Jsx | Kind::HeaderTs => "js",
              Kind::Missing => "error:Missing",
              Kind::Error => "error:Load",
              Kind::BadSyntax => "error:Parse",
              Kind::External => "external",
              Kind::Wasm => "wasm",
              _ => continue,
            };
            let got = match g.try_get(&w.url(i)) {
              Ok(Some(m)) if g.resolve(&w.url(i)) == &w.url(i) => crate::props::c17::slot_class(Ok(m)),
              Err(e) if e.specifier() == &w.url(i) => crate::props::c17::slot_class(Err(e)),
              _ => continue,
            };
            if !got.starts_with(expect) {
              run.violate(
                sig(format!("entry-kind-differs@{expect}")),
                format!("{} is a {:?} entry of the world; the graph holds {got}", w.spec(i), w.kinds[i]),
                case(json!({})),
              );
            }
          }
        }
      }
    }
    run.state_key = w.key();
    run.nontrivial = w.edges.iter().any(|e| e.form != Form::Import) && !w.edges.is_empty();
    run.outcome_key = hash_of(&outcomes);
    if ch.describe() {
      run.sample = Some(json!({"world": w.describe()}));
    }
    run
  }
}

fn fmt_deps(d: &IndexMap<String, ExpDep>) -> String {
  let parts: Vec<String> = d
    .iter()
    .map(|(k, v)| {
      format!(
        "{k:?}: code={:?} type={:?} dyn={} attr={:?} imports={:?}",
        v.code, v.ty, v.is_dynamic, v.attr, v.imports
      )
    })
    .collect();
  format!("{{{}}}", parts.join("; "))
}

// ---------------------------------------------------------------------------
// template-literal dynamic imports against a directory tree

/// files of the tree (path under file:///w/)
const T_FILES: &[&str] = &[
  "main.ts", "a.ts", "b.js", "c.mjs", "d.mts", "e.tsx", "f.jsx", "g.json", "h.d.ts", "i.txt",
  "sub/main2.ts", "sub/a.ts", "sub/k.json", "sub/deep/x.ts", "sub/deep/y.js",
  "node_modules/n.ts", ".hidden/h.ts", "vendor/v.ts", "sub/vendor/w.ts",
];

/// (template text between the backticks with `${x}` holes, import attribute)
const TEMPLATES: &[(&str, Option<&str>)] = &[
  ("./${x}", None),
  ("./sub/${x}", None),
  ("./${x}.ts", None),
  ("./sub/${x}.ts", None),
  ("./${x}/x.ts", None),
  ("./${x}/${y}.js", None),
  ("./sub/${x}/x.ts", None),
  ("./s${x}", None),
  ("./a${x}.ts", None),
  ("${x}", None),
  ("${x}/a.ts", None),
  ("../${x}", None),
  ("./sub/../${x}", None),
  ("file:///w/sub/${x}", None),
  ("./${x}", Some("json")),
  ("./${x}.json", Some("json")),
  ("./sub/${x}/${y}", None),
  ("./${x}a.ts", None),
];

/// The reference: which relative specifiers a template import stands for.
/// Rules (documented by the repository's own test of this feature): the first
/// text part names the directory to search and must end in a slash; text parts
/// between holes must be whole path segments' boundaries ("/…/"); a trailing
/// text part is a suffix; hidden directories, node_modules and vendor are not
/// searched; only JavaScript / TypeScript modules count (JSON with a json
/// attribute); the importing file itself is skipped; a file matches when the
/// text parts occur in it in order (glob `s0*s1*…*sn`).
fn template_reference(template: &str, attr: Option<&str>, referrer_path: &str) -> BTreeSet<String> {
  let mut out = BTreeSet::new();
  // split into text parts and holes
  let mut parts: Vec<Option<String>> = vec![]; // Some(text) | None (hole)
  let mut rest = template;
  while let Some(i) = rest.find("${") {
    if i > 0 {
      parts.push(Some(rest[..i].to_string()));
    }
    parts.push(None);
    let j = rest[i..].find('}').unwrap();
    rest = &rest[i + j + 1..];
  }
  if !rest.is_empty() {
    parts.push(Some(rest.to_string()));
  }
  let Some(Some(first)) = parts.first().cloned() else {
    return out; // starts with a hole: could be anything, not searched
  };
  let referrer_dir = match referrer_path.rfind('/') {
    Some(i) => &referrer_path[..i + 1],
    None => "",
  };
  // directory to search (path under /w/, with trailing slash or empty)
  let absolute = first.starts_with("file:///w/");
  let dir: String = if absolute {
    first["file:///w/".len()..].to_string()
  } else if let Some(r) = first.strip_prefix("./") {
    format!("{referrer_dir}{r}")
  } else {
    return out;
  };
  let texts: Vec<&String> = parts.iter().enumerate().filter_map(|(i, p)| if i == 0 && absolute { None } else { p.as_ref() }).collect();
  let last_is_text = matches!(parts.last(), Some(Some(_)));
  for (i, t) in texts.iter().enumerate() {
    let ok = !t.contains("/../")
      && if i == 0 {
        (t.starts_with("./") || t.starts_with('/')) && t.ends_with('/')
      } else if last_is_text && i == texts.len() - 1 {
        t.starts_with('/') || !t.contains('/')
      } else {
        t.starts_with('/') && t.ends_with('/')
      };
    if !ok {
      return out;
    }
  }
  // the directory part must be a directory prefix
  let dir_prefix = if dir.is_empty() || dir.ends_with('/') { dir.clone() } else { return out };
  for f in T_FILES {
    if !f.starts_with(&dir_prefix) || *f == referrer_path {
      continue;
    }
    // not below a hidden / node_modules / vendor directory (relative to the searched directory)
    let below = &f[dir_prefix.len()..];
    let segs: Vec<&str> = below.split('/').collect();
    if segs[..segs.len() - 1].iter().any(|d| d.starts_with('.') || *d == "node_modules" || *d == "vendor") {
      continue;
    }
    let ext_ok = if attr == Some("json") {
      f.ends_with(".json")
    } else {
      [".ts", ".js", ".mjs", ".mts", ".tsx", ".jsx"].iter().any(|e| f.ends_with(e)) && !f.ends_with(".d.ts")
    };
    if !ext_ok {
      continue;
    }
    // relative specifier as seen from the referrer
    let rel = if let Some(r) = f.strip_prefix(referrer_dir) {
      format!("./{r}")
    } else {
      // referrer in sub/: ../x
      let ups = referrer_dir.matches('/').count();
      format!("{}{}", "../".repeat(ups), f)
    };
    // glob s0*s1*...*sn
    let mut pos = 0usize;
    let mut ok = true;
    for t in &texts {
      match rel[pos..].find(t.as_str()) {
        Some(i) => pos += i + t.len(),
        None => {
          ok = false;
          break;
        }
      }
    }
    if ok && last_is_text && !rel.ends_with(texts.last().unwrap().as_str()) {
      ok = false;
    }
    if ok {
      out.insert(rel);
    }
  }
  out
}

fn body_templates(ch: &Ch) -> Run {
  use sys_traits::FsCreateDirAll;
  use sys_traits::FsWrite;
  let mut run = Run::default();
  let (template, attr) = TEMPLATES[ch.shape("template", TEMPLATES.len())];
  let referrer = *ch.pick("importing_module", &["main.ts", "sub/main2.ts"]);
  let kind = *ch.pick("graph_kind", &[GraphKind::All, GraphKind::CodeOnly, GraphKind::TypesOnly]);
  let skip_dynamic = ch.flag("skip_dynamic_deps");
  let second_import = ch.flag("also_a_plain_static_import_of_a_file_the_template_matches");
  let sys = sys_traits::impls::InMemorySys::default();
  let sched = Sched::new(SchedMode::Immediate);
  let loader = ScriptedLoader::new(sched);
  let with = match attr {
    Some(a) => format!(", {{ with: {{ type: \"{a}\" }} }}"),
    None => String::new(),
  };
  let static_target = if referrer == "main.ts" { "./a.ts" } else { "./a.ts" };
  let src = format!(
    "{}const x = \"p\", y = \"q\";\nconst m = await import(`{template}`{with});\nexport default m;\n",
    if second_import { format!("import * as st from \"{static_target}\";\n") } else { String::new() }
  );
  for f in T_FILES {
    let text = if *f == referrer { src.clone() } else if f.ends_with(".json") { "{\"k\": 1}".to_string() } else { "export default 1;\n".to_string() };
    let path = std::path::PathBuf::from(format!("/w/{f}"));
    sys.fs_create_dir_all(path.parent().unwrap()).unwrap();
    sys.fs_write(&path, &text).unwrap();
    loader.add_text(&format!("file:///w/{f}"), &text);
  }
  let root = url(&format!("file:///w/{referrer}"));
  let mut g = ModuleGraph::new(kind);
  if build_graph(
    &mut g,
    vec![root.clone()],
    &loader,
    BuildCfg {
      skip_dynamic_deps: skip_dynamic,
      file_system: Some(&sys),
      ..Default::default()
    },
    ch,
  )
  .is_err()
  {
    run.violate("build-did-not-finish", "deadlock", json!({"template": template}));
    return run;
  }
  run.evals = 1;
  let want = template_reference(template, attr, referrer);
  let case = |extra: Value| json!({"importing_module": referrer, "source": src, "files": T_FILES, "graph_kind": format!("{kind:?}"), "skip_dynamic_deps": skip_dynamic, "expected_specifiers": want, "detail": extra});
  let Some(deno_graph::Module::Js(js)) = g.get(&root) else {
    run.violate("template-importer-not-loaded", "the importing module is not a JS module of the graph", case(json!({})));
    return run;
  };
  // (1) recorded dynamic dependencies = what the template stands for
  let got: BTreeSet<String> = js.dependencies.iter().filter(|(_, d)| d.is_dynamic || d.imports.iter().any(|i| i.is_dynamic)).map(|(k, _)| k.clone()).collect();
  if got != want {
    let extra: Vec<_> = got.difference(&want).cloned().collect();
    let lacking: Vec<_> = want.difference(&got).cloned().collect();
    run.violate(
      format!("template-import-dependencies-differ:{}", if extra.is_empty() { "lacks" } else if lacking.is_empty() { "extra" } else { "both" }),
      format!("import(`{template}`){with} in {referrer}: recorded {got:?}, the template stands for {want:?}"),
      case(json!({})),
    );
  }
  for (k, d) in &js.dependencies {
    if want.contains(k) {
      let attr_ok = d.maybe_attribute_type.as_deref() == attr || (second_import && k == static_target);
      if !attr_ok {
        run.violate("template-import-attribute-differs", format!("{k}: attribute {:?}, the import has {attr:?}", d.maybe_attribute_type), case(json!({})));
      }
    }
  }
  // (2) closure: the matched files are loaded exactly when dynamic imports are followed
  let mut expect_loaded: BTreeSet<String> = BTreeSet::new();
  expect_loaded.insert(root.to_string());
  // (the importing module is TypeScript: its imports are followed under every graph kind)
  if !skip_dynamic {
    for r in &want {
      expect_loaded.insert(root.join(r).unwrap().to_string());
    }
  }
  if second_import {
    expect_loaded.insert(root.join(static_target).unwrap().to_string());
  }
  let have: BTreeSet<String> = g.specifiers().map(|(s, _)| s.to_string()).collect();
  if have != expect_loaded {
    let extra: Vec<_> = have.difference(&expect_loaded).cloned().collect();
    let lacking: Vec<_> = expect_loaded.difference(&have).cloned().collect();
    run.violate(
      format!("graph-is-not-the-closure@{kind:?}:{}", if extra.is_empty() { "reachable-absent" } else if lacking.is_empty() { "unreachable-present" } else { "both" }),
      format!("present but not reachable: {extra:?}; reachable but absent: {lacking:?}"),
      case(json!({})),
    );
  }
  run.state_key = hash_of(&(template, attr, referrer, format!("{kind:?}"), skip_dynamic, second_import));
  run.nontrivial = !want.is_empty();
  run.outcome_key = hash_of(&(format!("{got:?}"), have.len()));
  if ch.describe() {
    run.sample = Some(case(json!({"recorded": got})));
  }
  run
}

// ---------------------------------------------------------------------------
// WebAssembly modules: their imports are dependencies

/// what one generated wasm module imports: (module specifier text, field, kind)
pub const WASM_KINDS: &[&str] = &["func", "memory", "table", "global", "tag"];
pub const WASM_FROM: &[&str] = &["./a.ts", "./b.ts", "./missing.ts", "./a.ts#frag"];

/// Encodes a minimal wasm binary with the given imports and one exported function.
pub fn wasm_binary(imports: &[(&str, &str, &str)]) -> Vec<u8> {
  fn name(out: &mut Vec<u8>, s: &str) {
    out.push(s.len() as u8);
    out.extend_from_slice(s.as_bytes());
  }
  let mut b: Vec<u8> = b"\0asm\x01\0\0\0".to_vec();
  // type section: one type () -> ()
  b.extend_from_slice(&[0x01, 0x04, 0x01, 0x60, 0x00, 0x00]);
  // import section
  let mut sec: Vec<u8> = vec![imports.len() as u8];
  for (m, f, k) in imports {
    name(&mut sec, m);
    name(&mut sec, f);
    match *k {
      "func" => sec.extend_from_slice(&[0x00, 0x00]),
      "table" => sec.extend_from_slice(&[0x01, 0x70, 0x00, 0x00]),
      "memory" => sec.extend_from_slice(&[0x02, 0x00, 0x01]),
      "global" => sec.extend_from_slice(&[0x03, 0x7F, 0x00]),
      _ => sec.extend_from_slice(&[0x04, 0x00, 0x00]),
    }
  }
  b.push(0x02);
  b.push(sec.len() as u8);
  b.extend_from_slice(&sec);
  // function section: one function of type 0
  b.extend_from_slice(&[0x03, 0x02, 0x01, 0x00]);
  // export section: "run" -> func index = number of imported functions
  let n_func_imports = imports.iter().filter(|(_, _, k)| *k == "func").count() as u8;
  b.extend_from_slice(&[0x07, 0x07, 0x01, 0x03, b'r', b'u', b'n', 0x00, n_func_imports]);
  // code section: one empty body
  b.extend_from_slice(&[0x0A, 0x04, 0x01, 0x02, 0x00, 0x0B]);
  b
}

pub struct WasmWorld {
  pub imports: Vec<(&'static str, &'static str, &'static str)>,
  pub via_ts: bool,
  pub describe: Value,
}

/// Installs a wasm module m.wasm with <= 3 generated imports, a.ts and b.ts
/// (missing.ts is absent), and optionally main.ts importing the wasm module.
pub fn wasm_world(ch: &Ch, loader: &ScriptedLoader) -> (WasmWorld, ModuleSpecifier) {
  let w = wasm_choices(ch);
  let root = wasm_install(&w, loader);
  (w, root)
}

/// the choices alone (so that one world can be installed into several loaders)
pub fn wasm_choices(ch: &Ch) -> WasmWorld {
  let n = ch.shape("wasm_imports", 4);
  let mut imports = vec![];
  for i in 0..n {
    let from = WASM_FROM[ch.shape("wasm_import_from", WASM_FROM.len())];
    let kind = WASM_KINDS[ch.shape("wasm_import_kind", WASM_KINDS.len())];
    imports.push((from, ["f0", "f1", "f2"][i], kind));
  }
  let via_ts = ch.flag("wasm_imported_by_a_typescript_module");
  let root = if via_ts { "https://x/main.ts" } else { "https://x/m.wasm" };
  let describe = json!({"wasm_imports": imports.iter().map(|(m, f, k)| json!({"module": m, "name": f, "kind": k})).collect::<Vec<_>>(), "root": root});
  WasmWorld { imports, via_ts, describe }
}

pub fn wasm_install(w: &WasmWorld, loader: &ScriptedLoader) -> ModuleSpecifier {
  let imports = &w.imports;
  let via_ts = w.via_ts;
  loader.add("https://x/m.wasm", Entry::bytes(&wasm_binary(imports)));
  loader.add_text("https://x/a.ts", "export function f0(): void {}\nexport const f1 = 1;\nexport const f2 = 2;\n");
  loader.add_text("https://x/b.ts", "export function f0(): void {}\nexport const f1 = 1;\nexport const f2 = 2;\n");
  loader.add_text("https://x/main.ts", "import { run } from \"./m.wasm\";\nrun();\n");
  url(if via_ts { "https://x/main.ts" } else { "https://x/m.wasm" })
}

fn body_wasm(ch: &Ch) -> Run {
  let mut run = Run::default();
  let kind = *ch.pick("graph_kind", &[GraphKind::All, GraphKind::CodeOnly, GraphKind::TypesOnly]);
  let sched = Sched::new(SchedMode::Immediate);
  let loader = ScriptedLoader::new(sched);
  let (w, root) = wasm_world(ch, &loader);
  let mut g = ModuleGraph::new(kind);
  if build_graph(&mut g, vec![root.clone()], &loader, BuildCfg::default(), ch).is_err() {
    run.violate("build-did-not-finish", "deadlock", w.describe.clone());
    return run;
  }
  run.evals = 1;
  let case = |extra: Value| json!({"world": w.describe, "graph_kind": format!("{kind:?}"), "detail": extra});
  let wasm_url = url("https://x/m.wasm");
  let want_deps: BTreeSet<String> = w.imports.iter().map(|(m, _, _)| m.to_string()).collect();
  match g.get(&wasm_url) {
    Some(m @ deno_graph::Module::Wasm(_)) => {
      let got: BTreeSet<String> = m.dependencies().keys().cloned().collect();
      if got != want_deps {
        run.violate(
          "wasm-dependencies-differ-from-its-imports",
          format!("m.wasm imports from {want_deps:?}; recorded dependencies {got:?}"),
          case(json!({})),
        );
      }
    }
    other => {
      run.violate("wasm-module-not-loaded-as-wasm", format!("entry of m.wasm: {:?}", other.map(|m| m.specifier().as_str())), case(json!({})));
    }
  }
  // closure
  let mut want: BTreeSet<String> = BTreeSet::new();
  want.insert(root.to_string());
  want.insert(wasm_url.to_string());
  for d in &want_deps {
    want.insert(wasm_url.join(d).unwrap().to_string());
  }
  let have: BTreeSet<String> = g.specifiers().map(|(s, _)| s.to_string()).collect();
  if have != want {
    let extra: Vec<_> = have.difference(&want).cloned().collect();
    let lacking: Vec<_> = want.difference(&have).cloned().collect();
    run.violate(
      format!("graph-is-not-the-closure@{kind:?}:{}", if extra.is_empty() { "reachable-absent" } else if lacking.is_empty() { "unreachable-present" } else { "both" }),
      format!("present but not reachable: {extra:?}; reachable but absent: {lacking:?}"),
      case(json!({})),
    );
  }
  run.state_key = hash_of(&(format!("{:?}{kind:?}", w.imports), w.via_ts));
  run.nontrivial = !w.imports.is_empty();
  run.outcome_key = hash_of(&have);
  if ch.describe() {
    run.sample = Some(case(json!({"present": have})));
  }
  run
}

/// Two import statements for one WebAssembly module, each evaluating or
/// source-phase, static or dynamic, met in either order: the entry of the
/// module (and what it brings in) must be the join of what each statement
/// alone gives — an evaluating import anywhere means a loaded module.
fn body_wasm_importers(ch: &Ch) -> Run {
  let mut run = Run::default();
  const STMTS: [&str; 4] = ["static", "dynamic", "static-source-phase", "dynamic-source-phase"];
  let render = |k: usize, text: &str, name: &str| -> String {
    match k {
      0 => format!("import * as {name} from \"{text}\";\n"),
      1 => format!("const {name} = import(\"{text}\");\n"),
      2 => format!("import source {name} from \"{text}\";\n"),
      _ => format!("const {name} = import.source(\"{text}\");\n"),
    }
  };
  let kind = *ch.pick("graph_kind", &[GraphKind::All, GraphKind::CodeOnly, GraphKind::TypesOnly]);
  let is_dynamic = ch.flag("root_is_dynamic");
  let s1 = ch.shape("first_statement", 4);
  let s2 = ch.shape("second_statement", 4);
  // where the second statement lives: the same module (under another spelling
  // of the specifier) after or before the first, or a module imported after or before it
  let place = ch.shape("second_statement_in", 4);
  // the statements name the module itself, or a specifier the loader redirects to it
  let redirected = ch.flag("the_statements_name_a_specifier_that_redirects_to_the_module");
  let (rel, abs) = if redirected { ("./r.wasm", "https://x/r.wasm") } else { ("./m.wasm", "https://x/m.wasm") };
  let build = |with1: bool, with2: bool| -> Option<(String, bool, BTreeSet<String>)> {
    let sched = Sched::new(SchedMode::Immediate);
    let loader = ScriptedLoader::new(sched);
    loader.add("https://x/m.wasm", Entry::bytes(&wasm_binary(&[("./a.ts", "f0", "function")])));
    loader.add("https://x/r.wasm", Entry::Redirect(url("https://x/m.wasm")));
    loader.add_text("https://x/a.ts", "export function f0(): void {}\n");
    let st1 = if with1 { render(s1, rel, "w1") } else { String::new() };
    let st2_here = if with2 { render(s2, abs, "w2") } else { String::new() };
    let st2_there = if with2 { render(s2, rel, "w2") } else { String::new() };
    let main = match place {
      0 => format!("{st1}{st2_here}"),
      1 => format!("{st2_here}{st1}"),
      2 => format!("{st1}import \"./side.ts\";\n"),
      _ => format!("import \"./side.ts\";\n{st1}"),
    };
    loader.add_text("https://x/main.ts", &main);
    loader.add_text("https://x/side.ts", &st2_there);
    let mut g = ModuleGraph::new(kind);
    build_graph(&mut g, vec![url("https://x/main.ts")], &loader, BuildCfg { is_dynamic, ..Default::default() }, ch).ok()?;
    let entry = match g.try_get(&url(abs)) {
      Ok(Some(m @ deno_graph::Module::Wasm(_))) => format!("3:wasm-module deps={:?}", m.dependencies().keys().collect::<Vec<_>>()),
      Ok(Some(deno_graph::Module::External(_))) => "2:asset".to_string(),
      Ok(Some(m)) => format!("2:{:?}", m.media_type()),
      Err(e) => format!("1:error {}", err_kind(e)),
      Ok(None) => "0:absent".to_string(),
    };
    let a_present = g.contains(&url("https://x/a.ts"));
    let all: BTreeSet<String> = g.specifiers().map(|(s, _)| s.to_string()).filter(|s| !s.ends_with("side.ts")).collect();
    Some((entry, a_present, all))
  };
  let (Some(both), Some(only1), Some(only2)) = (build(true, true), build(true, false), build(false, true)) else {
    run.violate("build-did-not-finish", "deadlock", json!({}));
    return run;
  };
  run.evals = 3;
  let join = if only1.0 >= only2.0 { &only1 } else { &only2 };
  let case = json!({"graph_kind": format!("{kind:?}"), "root_is_dynamic": is_dynamic, "first_statement": STMTS[s1], "second_statement": STMTS[s2], "statements_name": rel, "r.wasm": "redirects to m.wasm",
    "second_statement_in": (["main.ts after the first (absolute spelling)", "main.ts before the first (absolute spelling)", "side.ts, imported after the first", "side.ts, imported before the first"][place]),
    "m.wasm with both": both.0, "with the first only": only1.0, "with the second only": only2.0});
  if both.0 != join.0 || both.1 != (only1.1 || only2.1) {
    run.violate(
      format!("two-importers-of-a-wasm-module-give-less-than-one@{}+{}", STMTS[s1], STMTS[s2]),
      format!("m.wasm is {:?} (a.ts present: {}) with both statements; alone they give {:?} / {:?} (a.ts present: {} / {})", both.0, both.1, only1.0, only2.0, only1.1, only2.1),
      case.clone(),
    );
  }
  run.count(if both.0.starts_with("3:") { "worlds_where_m_wasm_is_a_loaded_module" } else if both.0.starts_with("2:") { "worlds_where_m_wasm_is_an_asset" } else { "worlds_where_m_wasm_is_an_error_or_absent" }, 1);
  run.count("worlds_where_the_two_statements_alone_give_different_entries", (only1.0 != only2.0) as u64);
  let union: BTreeSet<String> = only1.2.union(&only2.2).cloned().collect();
  if both.2 != union {
    run.violate(
      format!("two-importers-graph-is-not-the-union@{}+{}", STMTS[s1], STMTS[s2]),
      format!("specifiers with both statements {:?}, union of the single-statement graphs {:?}", both.2, union),
      case.clone(),
    );
  }
  run.state_key = hash_of(&(format!("{kind:?}"), is_dynamic, s1, s2, place, redirected));
  run.nontrivial = s1 != s2;
  run.outcome_key = hash_of(&(both.0.clone(), both.1));
  if ch.describe() {
    run.sample = Some(case);
  }
  run
}


// ---------------------------------------------------------------------------
// import attribute types x the options that enable them

/// A resolver whose `resolve_attribute_type_import` claims the config
/// attribute types and sends them to a wrapper module (what the hook's
/// documentation describes); everything else resolves by default.
#[derive(Debug)]
struct ClaimingResolver;
impl deno_graph::source::Resolver for ClaimingResolver {
  fn resolve_attribute_type_import(
    &self,
    _specifier_text: &str,
    _referrer_range: &deno_graph::Range,
    _kind: deno_graph::source::ResolutionKind,
    attribute_type: &str,
  ) -> Option<Result<ModuleSpecifier, deno_graph::source::ResolveError>> {
    matches!(attribute_type, "yaml" | "toml" | "json5" | "jsonc").then(|| Ok(url("https://x/wrapper.ts")))
  }
}

#[derive(Clone, Debug, PartialEq, Eq, Hash)]
struct AttrObs {
  /// root.ts's recorded dependency for the statement: (attribute, code target, type target, is_dynamic)
  dep: Option<(Option<String>, Option<String>, Option<String>, bool)>,
  /// entry class at the requested specifier (after recorded redirects)
  target: String,
  redirect_recorded: bool,
  leaf: bool,
  wrapper: String,
  /// loader calls that name the requested specifier or the redirect's end
  target_calls: Vec<String>,
  others: BTreeSet<String>,
}

const AT_ATTRS: [Option<&str>; 8] = [None, Some("json"), Some("text"), Some("bytes"), Some("css"), Some("yaml"), Some("jsonc"), Some("foo")];
const AT_KINDS: [&str; 9] = ["t.ts", "t.js", "t.json", "t.txt", "t.css", "t.yaml", "gone.ts", "r.ts->t.ts", "r.ts->t.json"];
const AT_FORMS: [&str; 5] = ["static", "dynamic", "export-star", "import-type", "side-effect"];

fn at_relevant_flag(attr: Option<&str>) -> Option<usize> {
  match attr {
    Some("text") => Some(0),
    Some("bytes") => Some(1),
    Some("css") => Some(2),
    Some("yaml" | "jsonc") => Some(3),
    _ => None,
  }
}

fn entry_class(g: &ModuleGraph, s: &str) -> String {
  match g.try_get(&url(s)) {
    Ok(Some(m)) => crate::props::c17::slot_class(Ok(m)),
    Err(e) => crate::props::c17::slot_class(Err(e)),
    Ok(None) => "absent".into(),
  }
}

/// One importing statement with attribute type `attr` for a target of kind
/// `tk`, every combination of the four enabling options: the reference says
/// what the statement declares and what the build must hold, and options that
/// have nothing to do with the attribute type must change nothing.
fn body_attribute_types(ch: &Ch) -> Run {
  let mut run = Run::default();
  let kind = *ch.pick("graph_kind", &[GraphKind::All, GraphKind::CodeOnly, GraphKind::TypesOnly]);
  let attr = *ch.pick("attribute_type", &AT_ATTRS);
  let form = *ch.pick("import_form", &AT_FORMS);
  let tk = *ch.pick("target", &AT_KINDS);
  let hook = ch.flag("resolver_claims_config_attribute_types");
  let root_dynamic = ch.flag("root_is_dynamic");
  let (requested, end) = match tk {
    "r.ts->t.ts" => ("https://x/r.ts", "https://x/t.ts"),
    "r.ts->t.json" => ("https://x/r.ts", "https://x/t.json"),
    "gone.ts" => ("https://x/gone.ts", "https://x/gone.ts"),
    "t.ts" => ("https://x/t.ts", "https://x/t.ts"),
    "t.js" => ("https://x/t.js", "https://x/t.js"),
    "t.json" => ("https://x/t.json", "https://x/t.json"),
    "t.txt" => ("https://x/t.txt", "https://x/t.txt"),
    "t.css" => ("https://x/t.css", "https://x/t.css"),
    _ => ("https://x/t.yaml", "https://x/t.yaml"),
  };
  let text = format!("./{}", &requested["https://x/".len()..]);
  let with = match attr {
    Some(a) => format!(" with {{ type: \"{a}\" }}"),
    None => String::new(),
  };
  let dyn_with = match attr {
    Some(a) => format!(", {{ with: {{ type: \"{a}\" }} }}"),
    None => String::new(),
  };
  let stmt = match form {
    "static" => format!("import v from \"{text}\"{with};\nexport {{ v }};\n"),
    "dynamic" => format!("export const v = await import(\"{text}\"{dyn_with});\n"),
    "export-star" => format!("export * from \"{text}\"{with};\n"),
    "import-type" => format!("import type {{ T }} from \"{text}\"{with};\nexport type U = T;\n"),
    _ => format!("import \"{text}\"{with};\n"),
  };
  let build = |flags: [bool; 4]| -> Option<AttrObs> {
    let sched = Sched::new(SchedMode::Immediate);
    let loader = ScriptedLoader::new(sched);
    loader.add_text("https://x/root.ts", &stmt);
    loader.add_text("https://x/t.ts", "import \"./leaf.ts\";\nexport default 1;\nexport type T = number;\n");
    loader.add_text("https://x/t.js", "export default 1;\n");
    loader.add_text("https://x/t.json", "{\"k\": 1}");
    loader.add_text("https://x/t.txt", "plain text");
    loader.add_text("https://x/t.css", "a { color: red }");
    loader.add_text("https://x/t.yaml", "k: 1\n");
    loader.add_text("https://x/leaf.ts", "export const leaf = 1;\n");
    loader.add_text("https://x/wrapper.ts", "export default { k: 1 };\nexport type T = number;\n");
    if requested != end {
      loader.add(requested, Entry::Redirect(url(end)));
    }
    let resolver = ClaimingResolver;
    let mut g = ModuleGraph::new(kind);
    build_graph(
      &mut g,
      vec![url("https://x/root.ts")],
      &loader,
      BuildCfg {
        is_dynamic: root_dynamic,
        unstable_text: flags[0],
        unstable_bytes: flags[1],
        unstable_css: flags[2],
        unstable_config: flags[3],
        resolver: if hook { Some(&resolver) } else { None },
        ..Default::default()
      },
      ch,
    )
    .ok()?;
    let dep = match g.get(&url("https://x/root.ts")) {
      Some(deno_graph::Module::Js(js)) => js.dependencies.get(&text).map(|d| {
        (
          d.maybe_attribute_type.clone(),
          d.maybe_code.maybe_specifier().map(|s| s.to_string()).or(d.maybe_code.err().map(|_| "<error>".to_string())),
          d.maybe_type.maybe_specifier().map(|s| s.to_string()).or(d.maybe_type.err().map(|_| "<error>".to_string())),
          d.is_dynamic,
        )
      }),
      _ => None,
    };
    let target_calls: Vec<String> = loader
      .log
      .borrow()
      .iter()
      .filter(|c| c.specifier.as_str() == requested || c.specifier.as_str() == end)
      .map(|c| format!("{} {}", c.kind, &c.specifier.as_str()["https://x/".len()..]))
      .collect();
    let others: BTreeSet<String> = g
      .specifiers()
      .map(|(s, _)| s.to_string())
      .filter(|s| !matches!(s.as_str(), "https://x/root.ts" | "https://x/leaf.ts" | "https://x/wrapper.ts") && s != requested && s != end)
      .collect();
    Some(AttrObs {
      dep,
      target: entry_class(&g, requested),
      redirect_recorded: g.redirects.get(&url(requested)).map(|u| u.as_str()) == Some(end) && requested != end,
      leaf: g.contains(&url("https://x/leaf.ts")),
      wrapper: entry_class(&g, "https://x/wrapper.ts"),
      target_calls,
      others,
    })
  };
  let describe = |flags: [bool; 4]| json!({"unstable_text_imports": flags[0], "unstable_bytes_imports": flags[1], "unstable_css_imports": flags[2], "unstable_config_imports": flags[3]});
  let case = |flags: [bool; 4], extra: Value| json!({"graph_kind": format!("{kind:?}"), "root.ts": stmt, "target": tk, "attribute_type": attr, "resolver_with_attribute_hook": hook, "root_is_dynamic": root_dynamic, "options": describe(flags), "detail": extra});
  let relevant = at_relevant_flag(attr);
  let mut by_relevant: [Option<(AttrObs, [bool; 4])>; 2] = [None, None];
  let mut outcomes = vec![];
  for mask in 0..16u32 {
    let flags = [mask & 1 != 0, mask & 2 != 0, mask & 4 != 0, mask & 8 != 0];
    let Some(obs) = build(flags) else {
      run.violate("build-did-not-finish", "deadlock", case(flags, json!({})));
      return run;
    };
    run.evals += 1;
    // ---- options that do not concern this attribute type change nothing
    let on = relevant.map(|i| flags[i]).unwrap_or(false);
    match &by_relevant[on as usize] {
      None => by_relevant[on as usize] = Some((obs.clone(), flags)),
      Some((first, first_flags)) => {
        if *first != obs {
          run.violate(
            format!("unrelated-option-changes-the-result@{}", attr.unwrap_or("none")),
            format!("with {} the build gives {:?}; with {} it gives {:?} - the two differ only in options that do not concern attribute type {:?}", describe(*first_flags), first, describe(flags), obs, attr),
            case(flags, json!({})),
          );
        }
        continue; // the reference below was evaluated on the first of the class
      }
    }
    outcomes.push(hash_of(&obs));
    // ---- the reference
    let type_only = form == "import-type";
    let recorded = !(type_only && kind == GraphKind::CodeOnly);
    let claimed = hook && matches!(attr, Some("yaml" | "jsonc"));
    let resolved = if claimed { "https://x/wrapper.ts" } else { requested };
    let is_asset = matches!(attr, Some("text" | "bytes" | "css"));
    let in_dynamic_branch = form == "dynamic" || root_dynamic;
    let want_dep = recorded.then(|| {
      let a = attr.map(|a| a.to_string());
      if type_only {
        (a, None, Some(resolved.to_string()), false)
      } else {
        (a, Some(resolved.to_string()), None, form == "dynamic")
      }
    });
    if obs.dep != want_dep {
      let field = match (&obs.dep, &want_dep) {
        (Some(a), Some(b)) if a.0 != b.0 => "attribute",
        (Some(a), Some(b)) if a.1 != b.1 => "code-target",
        (Some(a), Some(b)) if a.2 != b.2 => "type-target",
        (Some(_), Some(_)) => "is_dynamic",
        _ => "presence",
      };
      run.violate(
        format!("attribute-import-recorded-dependency-differs@{field}{}", if claimed { ":claimed-by-resolver" } else { "" }),
        format!("root.ts records (attribute, code, type, is_dynamic) = {:?}; its source declares {:?}", obs.dep, want_dep),
        case(flags, json!({})),
      );
    }
    // what the entry of the loaded specifier must be
    let loaded_class = |final_spec: &str, attr_at_load: Option<&str>| -> String {
      if final_spec.ends_with("gone.ts") {
        return "error:Missing".into();
      }
      if let Some(a) = attr_at_load
        && a != "json"
        && !(flags[3] && matches!(a, "yaml" | "jsonc"))
      {
        return "error:UnsupportedImportAttributeType".into();
      }
      if final_spec.ends_with(".json") {
        return if in_dynamic_branch || attr_at_load == Some("json") { "json".into() } else { "error:UnsupportedMediaType".into() };
      }
      if attr_at_load == Some("json") {
        return "error:InvalidTypeAssertion".into();
      }
      if final_spec.ends_with(".ts") {
        return "js:TypeScript".into();
      }
      if final_spec.ends_with(".js") {
        return "js:JavaScript".into();
      }
      "error:UnsupportedMediaType".into()
    };
    let (want_target, want_leaf, want_wrapper, want_calls, want_redirect): (String, bool, String, Vec<String>, bool) = if !recorded {
      ("absent".into(), false, "absent".into(), vec![], false)
    } else if claimed {
      ("absent".into(), false, loaded_class("https://x/wrapper.ts", attr), vec![], false)
    } else if is_asset && !flags[relevant.unwrap()] {
      ("error:UnsupportedImportAttributeType".into(), false, "absent".into(), vec![], false)
    } else if is_asset {
      let c = if end.ends_with("gone.ts") { "error:Missing".to_string() } else { "external".to_string() };
      let mut calls = vec![format!("ensure_cached {}", &requested["https://x/".len()..])];
      if requested != end {
        calls.push(format!("ensure_cached {}", &end["https://x/".len()..]));
      }
      (c, false, "absent".into(), calls, requested != end)
    } else {
      let c = loaded_class(end, attr);
      let mut calls = vec![format!("load {}", &requested["https://x/".len()..])];
      if requested != end {
        calls.push(format!("load {}", &end["https://x/".len()..]));
      }
      let leaf = c == "js:TypeScript" && end.ends_with("t.ts");
      (c, leaf, "absent".into(), calls, requested != end)
    };
    let got_target = if obs.target.starts_with("error:Missing") { "error:Missing".to_string() } else { obs.target.clone() };
    if got_target != want_target {
      run.violate(
        format!("attribute-import-entry-differs@{}:{}->{}", attr.unwrap_or("none"), want_target, got_target),
        format!("the entry for {requested} is {}; the attribute type, the options and the file say {want_target}", obs.target),
        case(flags, json!({})),
      );
    }
    if obs.leaf != want_leaf || obs.wrapper != want_wrapper || !obs.others.is_empty() {
      run.violate(
        format!("attribute-import-graph-is-not-the-closure@{}", attr.unwrap_or("none")),
        format!("leaf.ts present: {} (expected {want_leaf}); wrapper.ts: {} (expected {want_wrapper}); other specifiers: {:?}", obs.leaf, obs.wrapper, obs.others),
        case(flags, json!({})),
      );
    }
    if obs.target_calls != want_calls {
      run.violate(
        format!("attribute-import-loader-calls-differ@{}", attr.unwrap_or("none")),
        format!("loader calls for the target: {:?}; expected {:?}", obs.target_calls, want_calls),
        case(flags, json!({})),
      );
    }
    if obs.redirect_recorded != want_redirect {
      run.violate(
        format!("attribute-import-redirect-not-recorded@{}", attr.unwrap_or("none")),
        format!("redirect {requested} -> {end} recorded: {}; expected {want_redirect}", obs.redirect_recorded),
        case(flags, json!({})),
      );
    }
    run.count(
      match want_target.as_str() {
        "external" => "cases_where_the_target_is_an_asset",
        "absent" => "cases_where_the_target_is_not_loaded",
        s if s.starts_with("error:UnsupportedImportAttributeType") => "cases_where_the_attribute_type_is_rejected",
        s if s.starts_with("error") => "cases_where_the_target_is_another_error",
        _ => "cases_where_the_target_is_a_module",
      },
      1,
    );
  }
  run.state_key = hash_of(&(format!("{kind:?}"), attr, form, tk, hook, root_dynamic));
  run.nontrivial = attr.is_some();
  run.outcome_key = hash_of(&outcomes);
  if ch.describe() {
    run.sample = Some(case([false; 4], json!({"with_all_options_off": format!("{:?}", by_relevant[0].as_ref().map(|x| &x.0))})));
  }
  run
}

pub fn prop(tier: Tier) -> Prop {
  let parts = match tier {
    Tier::Quick => vec![
      Part {
        name: "worlds",
        body: Box::new(body(Space::generic(3, 2))),
        modes: vec![Mode::Deviations(2), Mode::Deviations(3), Mode::Deviations(4)],
        what: "generic 3-specifier worlds (all entry kinds, all import forms, special targets, local/remote), <= 2 edges, deviation-bounded; 3 graph kinds x 3 option sets",
      },
      Part {
        name: "core",
        body: Box::new(body(Space::core(3, 3, CORE_KINDS_QUICK))),
        modes: vec![Mode::Full],
        what: "every world over the core alphabet (3 specifiers, <= 3 edges from import / dynamic import / import type), enumerated completely",
      },
    ],
    Tier::Thorough => vec![
      Part {
        name: "worlds",
        body: Box::new(body(Space::generic(3, 3))),
        modes: vec![Mode::Deviations(3), Mode::Deviations(4), Mode::Deviations(5)],
        what: "generic 3-specifier worlds, <= 3 edges",
      },
      Part {
        name: "worlds4",
        body: Box::new(body(Space::generic(4, 3))),
        modes: vec![Mode::Deviations(3), Mode::Deviations(4)],
        what: "generic 4-specifier worlds, <= 3 edges",
      },
      Part {
        name: "core",
        body: Box::new(body(Space::core(3, 3, CORE_KINDS))),
        modes: vec![Mode::Full],
        what: "every world over the core alphabet with kinds TypeScript / missing / JavaScript / JSON / redirect",
      },
    ],
  };
  let mut parts = parts;
  parts.push(Part {
    name: "chains",
    body: Box::new(body(Space::chains())),
    modes: vec![Mode::Full],
    what: "worlds around a redirect chain of 1-3 hops whose middle hops nothing imports directly (head imported statically / dynamically / type-only, a second importer entering at any hop, terminal TypeScript / JavaScript / missing / failing, optional leaf), enumerated completely",
  });
  parts.push(Part {
    name: "template-imports",
    body: Box::new(body_templates),
    modes: vec![Mode::Full],
    what: "template-literal dynamic imports expanded against a directory tree (19 files incl. hidden / node_modules / vendor directories, JSON, declaration and text files): 18 templates x 2 importing modules x 3 graph kinds x skip_dynamic_deps x an additional static import; recorded dynamic dependencies and the loaded set vs a reference of what the template stands for",
  });
  parts.push(Part {
    name: "wasm-importers",
    body: Box::new(body_wasm_importers),
    modes: vec![Mode::Full],
    what: "two import statements for one WebAssembly module (each static / dynamic / static source-phase / dynamic source-phase; second one in the same module under another spelling or in a sibling module, before or after the first) x 3 graph kinds x is_dynamic: the module's entry and the graph equal the join / union of the single-statement builds",
  });
  parts.push(Part {
    name: "attribute-types",
    body: Box::new(body_attribute_types),
    modes: vec![Mode::Full],
    what: "one importing statement (static / dynamic / export * / import type / side effect) carrying attribute type none / json / text / bytes / css / yaml / jsonc / foo for a target that is TypeScript (with an import of its own) / JavaScript / JSON / text / CSS / YAML / missing / a redirect to TypeScript or JSON, x 3 graph kinds x dynamic root x a resolver whose attribute hook claims the config types, each under all 16 combinations of unstable_text / bytes / css / config imports: recorded dependency, entry of the target, loaded set, loader calls and recorded redirect vs a reference, and options unrelated to the attribute type must change nothing",
  });
  parts.push(Part {
    name: "wasm-imports",
    body: Box::new(body_wasm),
    modes: vec![Mode::Full],
    what: "generated WebAssembly binaries with <= 3 imports (function, memory, table, global, tag) from present / absent / fragment-carrying specifiers, as root or imported by a TypeScript module, 3 graph kinds: recorded dependencies = the modules it imports from, loaded set = closure",
  });
  Prop {
    id: "C01",
    rule: "state = world (entry kinds x attribute per target x import edges with form and target x local/remote x x-typescript-types header x 1..2 roots); per world 3 graph kinds x 10 option sets (all 8 combinations of skip_dynamic_deps x is_dynamic x unstable text/bytes imports under default resolution; resolver (bare-specifier map, resolve_types table, default JSX import source and types source) + npm resolver + jsr passthrough + configured type import; default with the reachable redirects already in the graph through fill_from_lockfile) are built. Oracle: (1) each JS/TS module's recorded dependencies (specifier text -> code target, type target, is_dynamic, attribute, import kinds) equal what reference rules derive from the renderer's record of the statements it wrote; (2) slots + redirect sources = least closure of the roots under the follow rules of the kind/options, computed over the reference dependencies; (3) one load per specifier (asset->module upgrade excepted), every loader redirect recorded; (4) entry kind where the world determines it. Non-trivial = world with an edge of a non-default form.".into(),
    assumptions: vec![
      "the fourth option set has a resolver (bare-specifier map, resolve_types table for untyped modules), an npm resolver, jsr passthrough and one configured type import; the other three use default resolution".into(),
      "same-attribute proviso enforced by the generator (also through redirects, roots, types header, @ts-types pragma); at most one self-types / jsx pragma per module".into(),
      "worlds with loader redirect cycles are left to C14; JSON and unknown-media entries are checked for presence, not for kind (their acceptance depends on how they are first reached - see the C19 finding)".into(),
      "forms: import, side-effect import, export * / named from, import/export type, dynamic import, static+dynamic in both orders, reference path/types, @ts-types, @ts-self-types, JSDoc import, import source, import = require, declare module, import type expression, @jsxImportSource, require(), import type / dynamic import nested in a namespace".into(),
    ],
    parts,
    termination_property: false,
    min_outcomes: 8,
  }
}
