//! C02 — validation fails exactly when a followed edge reaches a failure.

use crate::engine::*;
use crate::env::*;
use crate::obs::*;
use crate::props::c15::all_opts;
use crate::report::*;
use crate::walkref::*;
use crate::world::*;
use deno_graph::GraphKind;
use deno_graph::ModuleGraph;
use deno_graph::ModuleGraphError;
use deno_graph::ModuleSpecifier;
use serde_json::json;
use std::collections::BTreeSet;

const FAILURES: &[&str] = &[
  "missing",
  "loader-error",
  "parse-error",
  "unsupported-media",
  "invalid-json-assertion",
  "unresolvable-specifier",
  "https-to-http",
  "remote-imports-file-literal",
  "none",
];
const EDGES: &[&str] = &[
  "static-code",
  "dynamic-code",
  "type-only",
  "types-dependency",
  "configured-type-import",
  "is-root",
];

/// Validation against the reference error set; returns evaluations.
pub fn check_validation(
  g: &ModuleGraph,
  view: &SlotView,
  roots: &[ModuleSpecifier],
  o: &Opts,
  run: &mut Run,
  case: &dyn Fn() -> serde_json::Value,
) -> (bool, BTreeSet<String>) {
  let none = BTreeSet::new();
  let want = reference(g, view, roots, o, &none);
  let got = g.walk(roots.iter(), o.walk_options()).validate();
  let tag = format!("{:?}/fd={}", o.kind, o.follow_dynamic);
  match &got {
    Ok(()) => {
      if !want.errors.is_empty() {
        let only_unreferenced_missing = o.follow_dynamic
          && want.errors.iter().all(|k| {
            k.strip_prefix("slot:").is_some_and(|s| {
              matches!(g.try_get(&url(s)), Err(e) if matches!(e.as_kind(), deno_graph::ModuleErrorKind::Missing { .. }))
                && !is_reported_in_place(g, view, roots, o, s)
            })
          });
        run.violate(
          if only_unreferenced_missing {
            "missing-entry-without-referrer@follow_dynamic".to_string()
          } else {
            format!("validate-ok-despite-reachable-failure@{tag}")
          },
          format!("validate() is Ok but these failures are reachable under {o:?}: {:?}", want.errors),
          case(),
        );
      }
    }
    Err(e) => {
      let key = error_key(e);
      if want.errors.is_empty() {
        run.violate(
          format!("validate-fails-without-reachable-failure@{tag}"),
          format!("validate() = {key} ({e}) but no failure is reachable under {o:?}"),
          case(),
        );
      } else if !want.errors.contains(&key) {
        run.violate(
          format!("validate-reports-unreachable-error@{tag}"),
          format!("validate() = {key}, reachable failures are {:?}", want.errors),
          case(),
        );
      }
      // "the reported error names the failing specifier and the referring location"
      if let ModuleGraphError::ModuleError(me) = e
        && let Some(r) = me.maybe_referrer()
      {
        // the referring location must lie in a module of the graph (or a
        // configured import referrer) that has a dependency whose range is it
        let ok = g.get(&r.specifier).is_some_and(|m| {
          m.dependencies().values().any(|d| {
            d.imports.iter().any(|i| i.specifier_range == *r)
              || d.maybe_code.maybe_range() == Some(r)
              || d.maybe_type.maybe_range() == Some(r)
          }) || m.maybe_types_dependency().is_some_and(|t| t.dependency.maybe_range() == Some(r))
        }) || g.imports.contains_key(&r.specifier);
        if !ok {
          run.violate(
            format!("error-referrer-is-not-an-import-site@{tag}"),
            format!("error {me} names referrer {} which is no import of that module", range_json(r)),
            case(),
          );
        }
      }
    }
  }
  (got.is_ok(), want.errors)
}

/// Is `slot:<s>` produced by some followed import of a visited module?
fn is_reported_in_place(g: &ModuleGraph, view: &SlotView, roots: &[ModuleSpecifier], o: &Opts, s: &str) -> bool {
  // recompute the reference without the root-level candidates: walk errors
  // of the real iterator contain the key iff it was reported in place
  let _ = view;
  g.walk(roots.iter(), o.walk_options())
    .errors()
    .any(|e| error_key(&e) == format!("slot:{s}"))
}

/// Structured placements: root -> importer -> (0..3 redirects) -> target with
/// a failure; the expected verdict is known by construction.
fn body_placements(ch: &Ch) -> Run {
  let mut run = Run::default();
  let failure = FAILURES[ch.shape("failure", FAILURES.len())];
  let edge = EDGES[ch.shape("edge", EDGES.len())];
  // 0..3 hops, and the loader's limit (10) and one below it
  let hops = [0usize, 1, 2, 3, 9, 10][ch.shape("redirect_hops", 6)];
  let sibling = ch.flag("healthy_sibling");
  let remote = matches!(failure, "https-to-http" | "remote-imports-file-literal") || ch.flag("remote");
  let base = if remote { "https://x/" } else { "file:///w/" };
  let sched = Sched::new(SchedMode::Immediate);
  let loader = ScriptedLoader::new(sched);
  // the failing target and the chain in front of it
  let target_name = match failure {
    "unsupported-media" => "t.txt",
    "https-to-http" => "t_http.ts",
    _ => "t.ts",
  };
  let target_url = match failure {
    "https-to-http" => "http://x/t_http.ts".to_string(),
    "remote-imports-file-literal" => "file:///w/t.ts".to_string(),
    _ => format!("{base}{target_name}"),
  };
  match failure {
    "missing" => {}
    "loader-error" => loader.add(&target_url, Entry::Error("boom".into())),
    "parse-error" => loader.add_text(&target_url, "export const = ;"),
    "unsupported-media" => loader.add_text(&target_url, "text"),
    "invalid-json-assertion" => loader.add_text(&target_url, "export const a = 1;"),
    "unresolvable-specifier" => {}
    "https-to-http" | "remote-imports-file-literal" | "none" => {
      loader.add_text(&target_url, "export const a = 1;")
    }
    _ => unreachable!(),
  }
  // specifier text the importer writes
  let policy = matches!(failure, "https-to-http" | "remote-imports-file-literal" | "unresolvable-specifier");
  let hops = if policy { 0 } else { hops };
  let first = if hops == 0 {
    target_url.clone()
  } else {
    for i in 0..hops {
      let to = if i + 1 == hops { target_url.clone() } else { format!("{base}r{}.ts", i + 1) };
      loader.add(&format!("{base}r{i}.ts"), Entry::Redirect(url(&to)));
    }
    format!("{base}r0.ts")
  };
  let text = match failure {
    "unresolvable-specifier" => "bare-pkg".to_string(),
    _ => first.clone(),
  };
  let attr = if failure == "invalid-json-assertion" { " with { type: \"json\" }" } else { "" };
  let mut roots = vec![url(&format!("{base}root.ts"))];
  let mut imports = vec![];
  let sib = if sibling { "import \"./ok.ts\";\n" } else { "" };
  loader.add_text(&format!("{base}ok.ts"), "export const ok = 1;");
  // `invalid-json-assertion` needs an attribute-capable form; type-only forms
  // fall back to a static import for it
  let edge_eff = if failure == "invalid-json-assertion" && !matches!(edge, "static-code" | "dynamic-code") {
    "static-code"
  } else {
    edge
  };
  // the same module may import the same specifier text a second time as an
  // asset (bytes / text): the evaluating import still makes it a module, and
  // a failure behind it is as reachable as without the twin
  let twin = ["none", "bytes-import-before", "text-import-after"][ch.shape("asset_import_of_the_same_specifier_in_the_same_module", 3)];
  let twin = if matches!(edge_eff, "static-code" | "dynamic-code") && attr.is_empty() && !policy { twin } else { "none" };
  let (twin_before, twin_after) = match (twin, edge_eff) {
    ("bytes-import-before", "static-code") => (format!("import tb from \"{text}\" with {{ type: \"bytes\" }};\n"), String::new()),
    ("bytes-import-before", _) => (format!("const tb = await import(\"{text}\", {{ with: {{ type: \"bytes\" }} }});\n"), String::new()),
    ("text-import-after", "static-code") => (String::new(), format!("import tt from \"{text}\" with {{ type: \"text\" }};\n")),
    ("text-import-after", _) => (String::new(), format!("const tt = await import(\"{text}\", {{ with: {{ type: \"text\" }} }});\n")),
    _ => (String::new(), String::new()),
  };
  match edge_eff {
    "static-code" => loader.add_text(&format!("{base}root.ts"), &format!("{sib}{twin_before}import * as t from \"{text}\"{attr};\n{twin_after}")),
    "dynamic-code" => {
      let dattr = if attr.is_empty() { "" } else { ", { with: { type: \"json\" } }" };
      loader.add_text(&format!("{base}root.ts"), &format!("{sib}{twin_before}const t = await import(\"{text}\"{dattr});\n{twin_after}"))
    }
    "type-only" => loader.add_text(&format!("{base}root.ts"), &format!("{sib}import type {{ T }} from \"{text}\";\n")),
    "types-dependency" => {
      loader.add_text(&format!("{base}root.ts"), &format!("{sib}import * as j from \"./j.js\";\n"));
      loader.add_text(&format!("{base}j.js"), &format!("// @ts-self-types=\"{text}\"\nexport const j = 1;\n"));
    }
    "configured-type-import" => {
      loader.add_text(&format!("{base}root.ts"), &format!("{sib}export const r = 1;\n"));
      imports.push(deno_graph::ReferrerImports {
        referrer: url(&format!("{base}deno.json")),
        imports: vec![text.clone()],
      });
    }
    "is-root" => {
      loader.add_text(&format!("{base}root.ts"), &format!("{sib}export const r = 1;\n"));
      if failure != "unresolvable-specifier" {
        roots.push(url(&first));
      }
    }
    _ => unreachable!(),
  }
  let desc = json!({"failure": failure, "edge": edge_eff, "asset_import_of_the_same_specifier_in_the_same_module": twin, "redirect_hops": hops, "healthy_sibling": sibling, "base": base,
    "files": loader.files.borrow().iter().map(|(k, v)| (k.to_string(), match v { Entry::Module { content, .. } => json!(String::from_utf8_lossy(content)), other => json!(format!("{other:?}")) })).collect::<serde_json::Map<_, _>>(),
    "roots": roots.iter().map(|r| r.as_str()).collect::<Vec<_>>(), "configured_imports": imports.iter().map(|i| i.imports.clone()).collect::<Vec<_>>() });
  let mut g = ModuleGraph::new(GraphKind::All);
  if build_graph(
    &mut g,
    roots.clone(),
    &loader,
    BuildCfg {
      imports,
      unstable_bytes: twin != "none",
      unstable_text: twin != "none",
      ..Default::default()
    },
    ch,
  )
  .is_err()
  {
    run.violate("build-did-not-finish", "deadlock", desc.clone());
    return run;
  }
  let view = SlotView::new(&g);
  let mut verdicts = vec![];
  for o in all_opts() {
    let case = || json!({"scenario": desc, "options": format!("{o:?}")});
    let (ok, _) = check_validation(&g, &view, &roots, &o, &mut run, &case);
    run.evals += 1;
    verdicts.push(ok);
    // ground truth by construction: is the failing edge selected by `o`?
    let has_failure = failure != "none";
    let types = o.kind != GraphKind::CodeOnly;
    let selected = match edge_eff {
      "static-code" => true,
      "dynamic-code" => o.follow_dynamic,
      "type-only" | "configured-type-import" => types,
      // j.js carries the self-types pragma; its target is visited whenever
      // types are included; a failure of the pragma's *own* resolution is
      // attached to j.js, which a types-only walk only inspects when JS is checked
      "types-dependency" => {
        types
          && !(failure == "unresolvable-specifier"
            && o.kind == GraphKind::TypesOnly
            && !matches!(o.check_js, CheckJs::True))
      }
      "is-root" => true,
      _ => unreachable!(),
    };
    // is-root + policy failures have no edge at all; a root of unknown media
    // type is (leniently) parsed as JavaScript, so it is not a failure; the
    // resolution of a configured import itself is outside the statement
    // (it speaks of edges from the given roots)
    let has_failure = has_failure
      && !(edge_eff == "is-root" && (policy || failure == "unsupported-media"))
      && !(edge_eff == "configured-type-import" && policy);
    let expect_fail = has_failure && selected;
    if expect_fail == ok {
      let known = expect_fail
        && o.follow_dynamic
        && failure == "missing"
        && (matches!(edge_eff, "is-root" | "configured-type-import")
          || (edge_eff == "types-dependency" && o.kind == GraphKind::TypesOnly));
      let known_policy = expect_fail
        && matches!(failure, "remote-imports-file-literal" | "https-to-http")
        && edge_eff == "types-dependency"
        && o.kind == GraphKind::TypesOnly;
      run.violate(
        if known {
          "missing-entry-without-referrer@follow_dynamic".to_string()
        } else if known_policy {
          "import-policy-on-types-dependency-not-checked@TypesOnly".to_string()
        } else if expect_fail {
          format!("reachable-failure-not-reported@{failure}/{edge_eff}")
        } else {
          format!("unselected-failure-reported@{failure}/{edge_eff}")
        },
        format!(
          "{failure} behind a {edge_eff} edge ({hops} redirect hops): validate() under {o:?} is {}, expected {}",
          if ok { "Ok" } else { "Err" },
          if expect_fail { "Err" } else { "Ok" }
        ),
        case(),
      );
    }
  }
  // valid() = code validation: type-only and unfollowed dynamic failures never fail it
  let valid_ok = g.valid().is_ok();
  let expect_valid_fail = failure != "none"
    && matches!(edge_eff, "static-code" | "is-root")
    && !(edge_eff == "is-root" && (policy || failure == "unsupported-media"));
  run.evals += 1;
  if valid_ok == expect_valid_fail {
    run.violate(
      format!("valid()-wrong@{failure}/{edge_eff}"),
      format!("valid() is {}, expected {}", if valid_ok { "Ok" } else { "Err" }, if expect_valid_fail { "Err" } else { "Ok" }),
      json!({"scenario": desc}),
    );
  }
  run.state_key = hash_json(&json!([failure, edge_eff, hops, sibling, remote, twin]));
  run.nontrivial = failure != "none";
  run.outcome_key = hash_of(&(verdicts, valid_ok));
  if ch.describe() {
    run.sample = Some(desc);
  }
  run
}

fn body_worlds(space: Space) -> impl Fn(&Ch) -> Run + Sync + Send {
  move |ch: &Ch| {
    let mut run = Run::default();
    let world = space.generate(ch, 2, None);
    let sched = Sched::new(SchedMode::Immediate);
    let loader = ScriptedLoader::new(sched);
    world.install(&loader);
    let mut g = ModuleGraph::new(GraphKind::All);
    if build_graph(
      &mut g,
      world.roots(),
      &loader,
      BuildCfg {
        unstable_bytes: true,
        unstable_text: true,
        ..Default::default()
      },
      ch,
    )
    .is_err()
    {
      run.violate("build-did-not-finish", "deadlock", world.describe());
      return run;
    }
    let view = SlotView::new(&g);
    let roots = world.roots();
    let mut verdicts = vec![];
    for o in all_opts() {
      let case = || json!({"world": world.describe(), "options": format!("{o:?}")});
      let (ok, _) = check_validation(&g, &view, &roots, &o, &mut run, &case);
      verdicts.push(ok);
      run.evals += 1;
    }
    // valid() is the CodeOnly / no-dynamic / check_js walk
    let o = Opts {
      kind: GraphKind::CodeOnly,
      follow_dynamic: false,
      check_js: CheckJs::True,
      prefer_fast_check: false,
    };
    let want = reference(&g, &view, &roots, &o, &BTreeSet::new());
    if g.valid().is_ok() != want.errors.is_empty() {
      run.violate(
        "valid()-disagrees-with-reachable-failures",
        format!("valid() ok={}, reachable code failures {:?}", g.valid().is_ok(), want.errors),
        json!({"world": world.describe()}),
      );
    }
    run.state_key = world.key();
    run.nontrivial = world.kinds.iter().any(|k| matches!(k, Kind::Missing | Kind::Error | Kind::BadSyntax | Kind::Txt))
      || world.edges.iter().any(|e| matches!(e.dst, Target::Bare | Target::Http | Target::FileLiteral));
    run.outcome_key = hash_of(&verdicts);
    if ch.describe() {
      run.sample = Some(json!({"world": world.describe()}));
    }
    run
  }
}

/// Graphs that carry fast-check modules (see C15's part of the same name):
/// validation under every option set incl. prefer_fast_check_graph.
fn body_fast_check(slots: usize) -> impl Fn(&Ch) -> Run + Sync + Send {
  move |ch: &Ch| {
    let mut run = Run::default();
    let Some((r, g, root_sets)) = crate::props::c15::fast_check_graph(ch, slots) else {
      run.violate("build-did-not-finish", "deadlock", json!({}));
      return run;
    };
    let graph = &r.graph;
    let view = SlotView::new(graph);
    let with_fc = r.modules.values().filter(|(_, s)| matches!(s, crate::fc::FcSlot::Module { .. })).count();
    let mut verdicts = vec![];
    for roots in &root_sets {
      for o in crate::props::c15::all_opts() {
        let case = || {
          json!({"package": g.pkg.files.iter().map(|(p, s)| json!([p, s])).collect::<Vec<_>>(), "exports": g.pkg.exports, "workspace_member": g.pkg.workspace,
            "modules_with_fast_check_output": with_fc,
            "walk_roots": roots.iter().map(|r| r.as_str()).collect::<Vec<_>>(), "options": format!("{o:?}")})
        };
        let (ok, _) = check_validation(graph, &view, roots, &o, &mut run, &case);
        verdicts.push(ok);
        run.evals += 1;
      }
    }
    run.count("graphs_with_fast_check_modules", (with_fc > 0) as u64);
    run.state_key = hash_of(&format!("{:?}{:?}{}{}", g.pkg.files, g.pkg.exports, g.pkg.workspace, root_sets[0].len()));
    run.nontrivial = with_fc > 0;
    run.outcome_key = hash_of(&verdicts);
    if ch.describe() {
      run.sample = Some(json!({"package": g.pkg.files.iter().map(|(p, s)| json!([p, s])).collect::<Vec<_>>(), "modules_with_fast_check_output": with_fc}));
    }
    run
  }
}

/// WebAssembly modules: a failure behind any of their imports (function or not) is a reachable failure.
fn body_wasm(ch: &Ch) -> Run {
  let mut run = Run::default();
  let sched = Sched::new(SchedMode::Immediate);
  let loader = ScriptedLoader::new(sched);
  let (w, root) = crate::props::c01::wasm_world(ch, &loader);
  let mut g = ModuleGraph::new(GraphKind::All);
  if build_graph(&mut g, vec![root.clone()], &loader, BuildCfg::default(), ch).is_err() {
    run.violate("build-did-not-finish", "deadlock", w.describe.clone());
    return run;
  }
  let view = SlotView::new(&g);
  // ground truth by construction: ./missing.ts and ./a.ts#frag are not served
  let must_fail = w.imports.iter().any(|(m, _, _)| *m == "./missing.ts" || m.contains('#'));
  let mut verdicts = vec![];
  for o in crate::props::c15::all_opts() {
    let case = || json!({"world": w.describe, "options": format!("{o:?}")});
    let got = g.walk([&root].into_iter(), o.walk_options()).validate();
    run.evals += 1;
    verdicts.push(got.is_ok());
    if got.is_ok() == must_fail {
      run.violate(
        format!("{}@wasm-import", if must_fail { "validate-ok-despite-reachable-failure" } else { "validate-fails-without-reachable-failure" }),
        format!("validate() under {o:?} = {:?}; the wasm module imports from {:?}", got.as_ref().map_err(|e| e.to_string()), w.imports.iter().map(|(m, _, k)| format!("{m} ({k})")).collect::<Vec<_>>()),
        case(),
      );
    }
    // and the reachability reference over the graph's own data agrees
    check_validation(&g, &view, std::slice::from_ref(&root), &o, &mut run, &case);
  }
  run.state_key = hash_of(&(format!("{:?}", w.imports), w.via_ts));
  run.nontrivial = !w.imports.is_empty();
  run.outcome_key = hash_of(&verdicts);
  if ch.describe() {
    run.sample = Some(w.describe.clone());
  }
  run
}

pub fn prop(tier: Tier) -> Prop {
  let mut parts = vec![Part {
    name: "placements",
    body: Box::new(body_placements),
    modes: vec![Mode::Full],
    what: "9 failure kinds x 6 edge kinds x {0,1,2,3,9,10} redirect hops x sibling x local/remote; expected verdict known by construction; 36 option sets + valid()",
  }];
  match tier {
    Tier::Quick => parts.push(Part {
      name: "worlds",
      body: Box::new(body_worlds(Space::generic(3, 2))),
      modes: vec![Mode::Deviations(2), Mode::Deviations(3)],
      what: "generic 3-specifier worlds, validation vs reference reachability of failures over the graph's recorded dependencies",
    }),
    Tier::Thorough => {
      parts.push(Part {
        name: "worlds",
        body: Box::new(body_worlds(Space::generic(3, 3))),
        modes: vec![Mode::Deviations(3), Mode::Deviations(4), Mode::Deviations(5)],
        what: "generic 3-specifier worlds, <= 3 edges",
      });
      parts.push(Part {
        name: "worlds4",
        body: Box::new(body_worlds(Space::generic(4, 3))),
        modes: vec![Mode::Deviations(3), Mode::Deviations(4)],
        what: "generic 4-specifier worlds, <= 3 edges",
      });
    }
  }
  match tier {
    Tier::Quick => parts.push(Part {
      name: "core",
      body: Box::new(body_worlds(Space::core(3, 3, CORE_KINDS_QUICK))),
      modes: vec![Mode::Full],
      what: "every world over the core alphabet, enumerated completely: 3 specifiers (root TypeScript, others TypeScript or missing), <= 3 edges from {import, dynamic import, import type}",
    }),
    Tier::Thorough => parts.push(Part {
      name: "core",
      body: Box::new(body_worlds(Space::core(3, 3, CORE_KINDS))),
      modes: vec![Mode::Full],
      what: "every world over the core alphabet, enumerated completely: 3 specifiers (kinds TypeScript / missing / JavaScript / JSON / redirect), <= 3 edges from {import, dynamic import, import type}",
    }),
  }
  parts.push(Part {
    name: "chains",
    body: Box::new(body_worlds(Space::chains())),
    modes: vec![Mode::Full],
    what: "worlds around a redirect chain of 1-3 hops whose middle hops nothing imports directly (head imported statically / dynamically / type-only, a second importer entering at any hop, terminal TypeScript / JavaScript / missing / failing, optional leaf), enumerated completely",
  });
  parts.push(Part {
    name: "fast-check",
    body: Box::new(body_fast_check(2)),
    modes: match tier {
      Tier::Quick => vec![Mode::Deviations(1), Mode::Deviations(2)],
      Tier::Thorough => vec![Mode::Deviations(2), Mode::Deviations(3)],
    },
    what: "graphs with fast-check modules (generated package + dependency package after build_fast_check_type_graph, with failing imports that only function bodies use): validate() under all 36 option sets incl. prefer_fast_check_graph vs the reachability reference",
  });
  parts.push(Part {
    name: "wasm-imports",
    body: Box::new(body_wasm),
    modes: vec![Mode::Full],
    what: "generated WebAssembly binaries with <= 3 imports (function, memory, table, global, tag) from present / absent specifiers: validate() under all 36 option sets against the verdict known by construction and the reachability reference",
  });
  Prop {
    id: "C02",
    rule: "placements: state = (failure kind, edge kind, redirect hops 0..3 / 9 / 10, healthy sibling, local/remote); the verdict of validate() under each of the 36 walk option sets and of valid() is compared with the verdict known by construction AND with an independent reachability computation over the graph's recorded dependencies; worlds: deviation-bounded generic worlds compared with the reachability reference only. Non-trivial = scenario/world that contains a failure.".into(),
    assumptions: vec![
      "graphs are built with kind All so that every edge kind is recorded; walk options vary".into(),
      "invalid-json-assertion is only placed on attribute-capable edges (static and dynamic imports)".into(),
      "policy failures (https->http, remote->file literal, unresolvable specifier) sit on the edge itself, so redirect hops are not varied for them".into(),
    ],
    parts,
    termination_property: false,
    min_outcomes: 6,
  }
}
