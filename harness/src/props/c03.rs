//! C03 — builds terminate with every reachable specifier settled under any
//! faults; failures become error entries with referrers; unaffected modules
//! load exactly as without the fault; no internal error when serialising.

use crate::engine::*;
use crate::env::*;
use crate::obs::*;
use crate::registry::*;
use crate::report::*;
use deno_graph::GraphKind;
use deno_graph::ModuleGraph;
use deno_graph::ModuleSpecifier;
use deno_graph::source::*;
use serde_json::Value;
use serde_json::json;
use std::collections::BTreeMap;
use std::collections::BTreeSet;
use std::rc::Rc;
use std::sync::Arc;

const LOAD_FAULTS: &[&str] = &[
  "honest",
  "not-found",
  "error",
  "checksum-error",
  "redirect-to-other",
  "redirect-via-hop",
  "redirect-to-self",
  "external",
  "different-final-specifier",
  "charset-bogus",
  "unparsable",
  "final-specifier-inside-registry",
  "different-final-specifier-unparsable",
  // an External answer that names another specifier: the build's root, which
  // is settled by then and must stay what it is
  "external-naming-the-root",
];
const META_FAULTS: &[&str] = &[
  "malformed-json",
  "empty-object",
  "export-to-file-outside-manifest",
  "export-not-a-url-reference",
  "non-string-export",
  "checksum-without-sha256-prefix",
];
const CACHE_FAULTS: &[&str] = &["honest", "not-found", "error", "checksum-error", "redirect-to-other"];

struct Fixture {
  name: &'static str,
  install: Box<dyn Fn(&ScriptedLoader)>,
  roots: Vec<ModuleSpecifier>,
  with_npm: bool,
  cached_only_empty: bool,
}

/// every fixture also serves `hop.ts` (an honest redirect to `other.ts`, so a
/// single injected redirect yields a two-hop chain) and `again.ts`, the root of
/// an optional second build on the same graph that asks for everything again
thread_local! {
  /// BuildOptions::prefer_cached_jsr_versions for the builds of the current run
  static PREFER_CACHED: std::cell::Cell<bool> = const { std::cell::Cell::new(false) };
}

fn install_common(l: &ScriptedLoader, again: &str) {
  l.add("https://x/hop.ts", Entry::Redirect(url("https://x/other.ts")));
  l.add_text("https://x/again.ts", again);
}

fn fixture(i: usize) -> Fixture {
  match i {
    0 => Fixture {
      name: "plain",
      install: Box::new(|l| {
        l.add_text("https://x/root.ts", "import \"./a.ts\";\nimport \"./r.ts\";\nimport data from \"./data.json\" with { type: \"json\" };\nimport txt from \"./t.ts\" with { type: \"text\" };\nawait import(\"./c.ts\");\n");
        // a.ts imports t.ts as a module while root imports it as text: that module load is deferred behind the asset load
        l.add_text("https://x/a.ts", "import \"./b.ts\";\nimport \"./t.ts\";\nexport const a = 1;\n");
        l.add_text("https://x/b.ts", "export const b = 1;\n");
        // the dynamic branch asks again for what the static part has settled
        l.add_text("https://x/c.ts", "import \"./b.ts\";\nimport \"./a.ts\";\nimport \"./r.ts\";\nimport \"./t.ts\";\nexport const c = 1;\n");
        l.add("https://x/r.ts", Entry::Redirect(url("https://x/b.ts")));
        install_common(l, "import \"./a.ts\";\nimport \"./r.ts\";\nimport \"./b.ts\";\nimport data from \"./data.json\" with { type: \"json\" };\nimport \"./t.ts\";\nimport \"./c.ts\";\n");
        l.add_text("https://x/data.json", "{\"k\": 1}");
        l.add_text("https://x/t.ts", "export const t = 1;\n");
        l.add_text("https://x/other.ts", "export const other = 1;\n");
      }),
      roots: vec![url("https://x/root.ts")],
      with_npm: false,
      cached_only_empty: false,
    },
    1 | 2 => Fixture {
      name: if i == 1 { "registry" } else { "registry-embedded-module-graph" },
      install: Box::new(move |l| {
        l.add_text("https://x/root.ts", "import \"jsr:@s/a\";\nimport \"https://jsr.io/@s/b/1.0.0/mod.ts\";\nimport \"./p.ts\";\nawait import(\"./late.ts\");\n");
        l.add_text("https://x/p.ts", "export const p = 1;\n");
        // late.ts also asks for a requirement no version satisfies and for a package whose only match is yanked
        l.add_text("https://x/late.ts", "import \"jsr:@s/a\";\nimport \"jsr:@s/b@^1\";\nimport \"./p.ts\";\nimport \"jsr:@s/b@^9\";\nimport \"jsr:@s/y@1\";\n");
        let mut y = RegPackage {
          name: "@s/y".into(),
          versions: vec![RegVersion::new("1.0.0", &[("/mod.ts", "export const y = 1;\n")])],
          raw_meta: None,
        };
        y.versions[0].yanked = true;
        if i == 2 {
          y.versions[0].embed_module_graph = true;
        }
        y.install(l);
        // the second build also asks for a package the first one never met: one requirement that resolves, then one no version satisfies
        install_common(l, "import \"jsr:@s/a\";\nimport \"jsr:@s/a@1/\";\nimport \"https://jsr.io/@s/b/1.0.0/mod.ts\";\nimport \"https://jsr.io/@s/a/1.0.0/sub.ts\";\nimport \"./p.ts\";\nimport \"jsr:@s/z@1\";\nimport \"jsr:@s/z@^7\";\n");
        let mut z = RegPackage {
          name: "@s/z".into(),
          versions: vec![RegVersion::new("1.0.0", &[("/mod.ts", "export const z = 1;\n")]), RegVersion::new("2.0.0", &[("/mod.ts", "export const z = 2;\n")])],
          raw_meta: None,
        };
        if i == 2 {
          for v in z.versions.iter_mut() {
            v.embed_module_graph = true;
          }
        }
        z.install(l);
        l.add_text("https://x/other.ts", "export const other = 1;\n");
        let mut a = RegPackage {
          name: "@s/a".into(),
          versions: vec![RegVersion::new("1.0.0", &[("/mod.ts", "import \"jsr:@s/b@^1\";\nimport \"npm:x@1\";\nimport \"./sub.ts\";\nexport const a = 1;\n"), ("/sub.ts", "import \"./cfg.json\";\nexport const s = 1;\n"), ("/cfg.json", "{\"k\": 1}")])],
          raw_meta: None,
        };
        let mut b = RegPackage {
          name: "@s/b".into(),
          versions: vec![RegVersion::new("1.0.0", &[("/mod.ts", "export const b = 1;\n")]), RegVersion::new("1.1.0", &[("/mod.ts", "export const b = 2;\n")])],
          raw_meta: None,
        };
        if i == 2 {
          for v in a.versions.iter_mut().chain(b.versions.iter_mut()) {
            v.embed_module_graph = true;
          }
        }
        a.install(l);
        b.install(l);
      }),
      roots: vec![url("https://x/root.ts")],
      with_npm: true,
      cached_only_empty: i == 2,
    },
    3 => Fixture {
      name: "npm-and-node",
      install: Box::new(|l| {
        l.add_text("https://x/root.ts", "import \"npm:x@1\";\nimport \"npm:b@2/sub\";\nimport \"node:fs\";\nimport \"./q.ts\";\nawait import(\"npm:z@3\");\n");
        l.add_text("https://x/q.ts", "import \"npm:x@1\";\nexport const q = 1;\n");
        install_common(l, "import \"npm:x@1\";\nimport \"npm:b@2/sub\";\nimport \"npm:z@3\";\nimport \"./q.ts\";\n");
        l.add_text("https://x/other.ts", "export const other = 1;\n");
      }),
      roots: vec![url("https://x/root.ts")],
      with_npm: true,
      cached_only_empty: false,
    },
    _ => unreachable!(),
  }
}

#[derive(Clone, Debug)]
struct Injected {
  call_index: usize,
  kind: &'static str,
  specifier: ModuleSpecifier,
  fault: &'static str,
  cache_setting: String,
}

fn is_meta(s: &ModuleSpecifier) -> bool {
  s.as_str().starts_with("https://jsr.io/") && s.path().ends_with("meta.json")
}

fn build_fixture(
  fx: &Fixture,
  ch: &Ch,
  inject: bool,
  npm_mode: usize,
  second: bool,
) -> (ModuleGraph, Vec<Injected>, Vec<String>, Result<(), DriveError>) {
  build_fixture_sched(fx, ch, inject, npm_mode, SchedMode::Immediate, second)
}

fn build_fixture_sched(
  fx: &Fixture,
  ch: &Ch,
  inject: bool,
  npm_mode: usize,
  mode: SchedMode,
  second: bool,
) -> (ModuleGraph, Vec<Injected>, Vec<String>, Result<(), DriveError>) {
  let prefer_cached = PREFER_CACHED.with(|p| p.get());
  let sched = Sched::new(mode);
  let loader = ScriptedLoader::new(sched);
  (fx.install)(&loader);
  if fx.cached_only_empty {
    *loader.cached_only.borrow_mut() = Some(Default::default());
  }
  let files: Rc<BTreeMap<ModuleSpecifier, Entry>> = Rc::new(loader.files.borrow().clone());
  let injected: Rc<std::cell::RefCell<Vec<Injected>>> = Default::default();
  if inject {
    let ch2 = ch.clone();
    let inj = injected.clone();
    let files = files.clone();
    *loader.injector.borrow_mut() = Some(Box::new(move |call: &LoadCall, idx: usize| {
      let spec = &call.specifier;
      let honest_content: Option<Arc<[u8]>> = match files.get(spec) {
        Some(Entry::Module { content, .. }) => Some(content.clone()),
        _ => None,
      };
      let record = |fault: &'static str| {
        inj.borrow_mut().push(Injected {
          call_index: idx,
          kind: call.kind,
          specifier: spec.clone(),
          fault,
          cache_setting: format!("{:?}", call.cache_setting),
        });
      };
      if call.kind == "ensure_cached" {
        let k = ch2.choose("cache_answer", CACHE_FAULTS.len());
        let fault = CACHE_FAULTS[k];
        if k == 0 {
          return Answer::Honest;
        }
        record(fault);
        return Answer::Cache(match fault {
          "not-found" => Ok(None),
          "error" => Err(other_err("injected failure")),
          "checksum-error" => Err(LoadError::ChecksumIntegrity(ChecksumIntegrityError {
            actual: "aa".into(),
            expected: "bb".into(),
          })),
          "redirect-to-other" => Ok(Some(CacheResponse::Redirect {
            specifier: url("https://x/other.ts"),
          })),
          _ => unreachable!(),
        });
      }
      let meta = is_meta(spec);
      let n = LOAD_FAULTS.len() + if meta { META_FAULTS.len() } else { 0 };
      let k = ch2.choose("load_answer", n);
      if k == 0 {
        return Answer::Honest;
      }
      let fault = if k < LOAD_FAULTS.len() {
        LOAD_FAULTS[k]
      } else {
        META_FAULTS[k - LOAD_FAULTS.len()]
      };
      record(fault);
      let module = |content: &[u8], final_spec: Option<&str>, headers: Option<Vec<(&str, &str)>>| {
        Ok(Some(LoadResponse::Module {
          content: Arc::from(content),
          mtime: None,
          specifier: final_spec.map(url).unwrap_or_else(|| spec.clone()),
          maybe_headers: headers.map(|h| h.into_iter().map(|(a, b)| (a.to_string(), b.to_string())).collect()),
        }))
      };
      let honest = honest_content.clone().unwrap_or_else(|| Arc::from(&b"export const injected = 1;\n"[..]));
      Answer::Load(match fault {
        "not-found" => Ok(None),
        "error" => Err(other_err("injected failure")),
        "checksum-error" => Err(LoadError::ChecksumIntegrity(ChecksumIntegrityError {
          actual: "aa".into(),
          expected: "bb".into(),
        })),
        "redirect-to-other" => Ok(Some(LoadResponse::Redirect {
          specifier: url("https://x/other.ts"),
        })),
        "redirect-via-hop" => Ok(Some(LoadResponse::Redirect {
          specifier: url("https://x/hop.ts"),
        })),
        "redirect-to-self" => Ok(Some(LoadResponse::Redirect {
          specifier: spec.clone(),
        })),
        "external" => Ok(Some(LoadResponse::External {
          specifier: spec.clone(),
        })),
        "external-naming-the-root" => Ok(Some(LoadResponse::External {
          specifier: url("https://x/root.ts"),
        })),
        "different-final-specifier" => module(&honest, Some("https://x/final_elsewhere.ts"), None),
        "charset-bogus" => module(&honest, None, Some(vec![("content-type", "application/typescript; charset=bogus")])),
        "unparsable" => module(b"export const = ;;; {", None, None),
        "different-final-specifier-unparsable" => module(b"export const = ;;; {", Some("https://x/final_elsewhere.ts"), None),
        "final-specifier-inside-registry" => module(b"import \"jsr:@s/b@1\";\nexport const moved = 1;\n", Some("https://jsr.io/@s/a/1.0.0/mod.ts"), None),
        "malformed-json" => module(b"{ \"exports\": ", None, None),
        "empty-object" => module(b"{}", None, None),
        "export-to-file-outside-manifest" => module(br#"{"exports":{".":"./not_there.ts"},"manifest":{},"versions":{"1.0.0":{}}}"#, None, None),
        "export-not-a-url-reference" => module(br#"{"exports":{".":"https://["},"manifest":{},"versions":{"1.0.0":{}}}"#, None, None),
        "non-string-export" => module(br#"{"exports":{".":5},"manifest":{},"versions":{"1.0.0":{}}}"#, None, None),
        "checksum-without-sha256-prefix" => module(br#"{"exports":{".":"./mod.ts"},"manifest":{"/mod.ts":{"size":1,"checksum":"md5-abc"}},"versions":{"1.0.0":{}}}"#, None, None),
        _ => unreachable!(),
      })
    }));
  }
  let npm = ScriptedNpmResolver {
    failing: match npm_mode {
      1 => vec!["x".into()],
      3 => vec!["b".into()],
      _ => vec![],
    },
    dep_graph_error: npm_mode == 2,
    log: Default::default(),
  };
  let mut graph = ModuleGraph::new(GraphKind::All);
  let cfg = || BuildCfg {
    unstable_text: true,
    unstable_bytes: true,
    prefer_cached_jsr_versions: prefer_cached,
    npm: if fx.with_npm { Some(&npm) } else { None },
    // completion order is a free (shape) choice here: faults are what is bounded
    sched_cost: false,
    ..Default::default()
  };
  let mut r = build_graph(&mut graph, fx.roots.clone(), &loader, cfg(), ch);
  if second && r.is_ok() {
    // a later build on the same graph that asks again for what is settled
    r = build_graph(&mut graph, vec![url("https://x/again.ts")], &loader, cfg(), ch);
  }
  let log = loader
    .log
    .borrow()
    .iter()
    .map(|c| format!("{} {} [{:?}] -> {}", c.kind, c.specifier, c.cache_setting, c.answer))
    .collect();
  let inj = injected.borrow().clone();
  (graph, inj, log, r)
}

fn body(fixtures: Vec<usize>) -> impl Fn(&Ch) -> Run + Sync + Send {
  body_sched(fixtures, SchedMode::Immediate)
}

fn body_sched(fixtures: Vec<usize>, mode: SchedMode) -> impl Fn(&Ch) -> Run + Sync + Send {
  move |ch: &Ch| {
    let mut run = Run::default();
    let fi = fixtures[ch.shape("fixture", fixtures.len())];
    let fx = fixture(fi);
    let npm_mode = if fx.with_npm { ch.choose("npm_answer", 4) } else { 0 };
    let second = ch.flag("second_build_on_the_same_graph");
    // a non-default build option that adds load calls (cache-only probes) to the registry fixtures
    let prefer_cached = matches!(fi, 1 | 2) && ch.choose("prefer_cached_jsr_versions", 2) == 1;
    PREFER_CACHED.with(|p| p.set(prefer_cached));
    // fault-free reference (same npm answer)
    let (g0, _, _, r0) = build_fixture(&fx, ch, false, npm_mode, second);
    let (g, injected, log, r) = build_fixture_sched(&fx, ch, true, npm_mode, mode, second);
    run.evals = 1;
    let o0 = obs(&g0);
    let o = obs(&g);
    let case = |extra: Value| {
      json!({"fixture": fx.name, "second_build_with_root_again.ts": second, "prefer_cached_jsr_versions": prefer_cached, "npm_answer": (["ok", "request-error for package x", "dep-graph-error", "request-error for package b (imported after x, sorted before it)"][npm_mode]),
        "injected": injected.iter().map(|i| json!({"call": i.call_index, "kind": i.kind, "specifier": i.specifier.as_str(), "cache_setting": i.cache_setting, "answer": i.fault})).collect::<Vec<_>>(),
        "loader_calls": log, "detail": extra})
    };
    let first_fault = injected.first().map(|i| i.fault).unwrap_or("none");
    if r0.is_err() {
      run.violate("fault-free-build-did-not-finish", "deadlock without faults", case(json!({})));
    }
    // registry bookkeeping survives whatever the build went through (a
    // cache-busting restart in particular): every `jsr:` specifier that has a
    // redirect into the registry has its requirement in the package table,
    // mapped to the version the redirect names
    for (k, v) in g0.redirects.iter().filter(|(k, _)| k.scheme() == "jsr") {
      let Ok(req_ref) = deno_semver::jsr::JsrPackageReqReference::from_specifier(k) else { continue };
      let mapped = g0.packages.mappings().get(req_ref.req()).map(|nv| nv.to_string());
      let in_url = mapped.as_ref().is_some_and(|nv| {
        let (name, version) = nv.rsplit_once('@').unwrap_or((nv.as_str(), ""));
        v.as_str().starts_with(&format!("https://jsr.io/{name}/{version}/"))
      });
      if !in_url {
        run.violate(
          "jsr-redirect-without-matching-package-mapping",
          format!("{k} redirects to {v}; the package table maps its requirement to {mapped:?}"),
          case(json!({})),
        );
      }
    }
    // a package file that imports JSON statically and without attribute: an
    // error entry, whatever dynamic branches the build has queued by the time
    // the package's files are visited (absolute expectation: the comparison
    // with the fault-free build below would not see a wrong answer they share)
    if matches!(fi, 1 | 2) {
      let cfg = url("https://jsr.io/@s/a/1.0.0/cfg.json");
      match g0.try_get(&cfg) {
        Err(e) if err_kind(e) == "UnsupportedMediaType" => {}
        other => run.violate(
          "statically-imported-json-without-attribute-accepted-in-a-registry-package",
          format!("{cfg} is imported by sub.ts with a plain static import; its entry is {:?}", other.map(|m| m.map(|m| m.specifier().to_string())).map_err(|e| err_kind(e))),
          case(json!({})),
        ),
      }
    }
    // the npm resolver's per-requirement answers land on the requirements they
    // were given for: a failed requirement is an error entry of *its*
    // specifiers, every other npm specifier is an npm module
    if matches!(npm_mode, 1 | 3) {
      let failing = if npm_mode == 1 { "x" } else { "b" };
      for (s, entry) in g0.specifiers() {
        if s.scheme() != "npm" {
          continue;
        }
        let name = s.path().split('@').next().unwrap_or("");
        let is_err = entry.is_err();
        if is_err != (name == failing) {
          run.violate(
            format!("npm-resolution-answer-on-the-wrong-specifier@{}", if is_err { "error-entry-for-a-resolved-requirement" } else { "module-for-a-failed-requirement" }),
            format!("the npm resolver fails the requirement on package {failing} only; {s} is {}", if is_err { "an error entry" } else { "a module" }),
            case(json!({})),
          );
        }
      }
    }
    // (2) the build finishes
    if let Err(e) = &r {
      run.violate(
        format!("build-did-not-finish@{first_fault}"),
        format!("{e:?}: the build future is pending with nothing outstanding"),
        case(json!({})),
      );
      return run;
    }
    // (3) nothing unfinished, no internal error in the serialised graph
    if !o["pending_slots"].as_array().unwrap().is_empty() {
      let self_redirect = injected.iter().any(|i| i.fault == "redirect-to-self");
      run.violate(
        if self_redirect { "pending-survives@self-redirect".to_string() } else { format!("pending-survives@{first_fault}") },
        format!("serialised graph reports an unfinished entry for {}", o["pending_slots"]),
        case(json!({})),
      );
    }
    if o["serialized"].to_string().contains("[INTERNAL ERROR]") && o["pending_slots"].as_array().unwrap().is_empty() {
      run.violate("internal-error-in-serialisation", "serialised graph contains [INTERNAL ERROR]", case(json!({})));
    }
    // (4) each terminal fault becomes an error entry for the affected specifier, with a referrer
    let again = url("https://x/again.ts");
    let all_roots: Vec<ModuleSpecifier> = fx.roots.iter().cloned().chain(second.then(|| again.clone())).collect();
    let roots: BTreeSet<&ModuleSpecifier> = all_roots.iter().collect();
    let honest_later = |inj: &Injected| {
      // a later honest answer for the same specifier (checksum retry) heals the fault
      log.iter().enumerate().any(|(i, l)| i > inj.call_index && l.contains(&format!(" {} ", inj.specifier)) && !l.ends_with("not-found") && !l.contains("-> error") && !l.contains("checksum-error"))
    };
    for inj in &injected {
      if inj.cache_setting == "Only" {
        continue; // a cache probe decides nothing by itself
      }
      let is_js = matches!(
        deno_graph::MediaType::from_specifier(&inj.specifier),
        deno_graph::MediaType::TypeScript | deno_graph::MediaType::JavaScript
      );
      let in_registry = inj.specifier.as_str().starts_with("https://jsr.io/");
      let terminal = match inj.fault {
        "not-found" | "error" => true,
        // JSON / text assets are not parsed; registry files with embedded
        // module information are not parsed either
        "unparsable" => is_js && !in_registry,
        // registry content ignores headers by design ("no charset for JSR")
        "charset-bogus" => !in_registry,
        _ => false,
      } && !is_meta(&inj.specifier)
        && inj.kind == "load";
      if !terminal || honest_later(inj) {
        continue;
      }
      // only meaningful if this is the only fault touching the specifier
      if injected.iter().filter(|j| j.specifier == inj.specifier).count() > 1 {
        continue;
      }
      // ... and no other answer delivered a module *as* this specifier
      if inj.specifier.as_str() == "https://jsr.io/@s/a/1.0.0/mod.ts" && injected.iter().any(|j| j.fault == "final-specifier-inside-registry") {
        continue;
      }
      match g.try_get(&inj.specifier) {
        Err(e) => {
          // a root, or what a root was redirected to
          let is_root = roots.contains(&inj.specifier)
            || all_roots.iter().any(|r| g.resolve(r) == &inj.specifier)
            || injected.iter().any(|j| {
              roots.contains(&j.specifier) && matches!(j.fault, "redirect-to-other" | "redirect-via-hop") && matches!(inj.specifier.as_str(), "https://x/other.ts" | "https://x/hop.ts")
            });
          if !is_root {
            match e.maybe_referrer() {
              None if !matches!(e.as_kind(), deno_graph::ModuleErrorKind::Parse { .. }) => {
                run.violate(
                  format!("error-entry-without-referrer@{}", inj.fault),
                  format!("{} failed ({}) but its error entry names no referrer: {e}", inj.specifier, inj.fault),
                  case(json!({})),
                );
              }
              Some(r) => {
                // (the referring module may itself have been hit by a second fault)
                let known = |gr: &ModuleGraph| !matches!(gr.try_get(&r.specifier), Ok(None));
                if !known(&g) && !known(&g0) {
                  run.violate(
                    format!("error-referrer-not-a-module@{}", inj.fault),
                    format!("{} names referrer {} which is no module of the graph", inj.specifier, r.specifier),
                    case(json!({})),
                  );
                }
              }
              _ => {}
            }
          }
        }
        Ok(Some(m)) => {
          // the specifier itself holds an error entry, but an earlier honest
          // answer recorded it as a redirect source and lookups follow the
          // redirect: C03 asks for the entry (there is one); that lookups and
          // the walk disagree about it is C14's business (part fault-histories)
          let raw_error = o["serialized"]["modules"].as_array().is_some_and(|a| {
            a.iter().any(|e| e["specifier"].as_str() == Some(inj.specifier.as_str()) && e.get("error").is_some())
          });
          if raw_error && g.redirects.contains_key(&inj.specifier) {
            run.count("error_entry_shadowed_by_earlier_redirect", 1);
            continue;
          }
          // asset loads (ensure_cached) may legitimately mark the entry external
          if m.external().is_none() {
            run.violate(
              format!("fault-did-not-become-an-error-entry@{}", inj.fault),
              format!("{} was answered with {} but the graph holds a {} module for it", inj.specifier, inj.fault, crate::props::c17::slot_class(Ok(m))),
              case(json!({})),
            );
          }
        }
        Ok(None) => {
          // same shadowing as above, inside a redirect cycle
          let raw_error = o["serialized"]["modules"].as_array().is_some_and(|a| {
            a.iter().any(|e| e["specifier"].as_str() == Some(inj.specifier.as_str()) && e.get("error").is_some())
          });
          if raw_error && g.redirects.contains_key(&inj.specifier) {
            run.count("error_entry_shadowed_by_earlier_redirect", 1);
            continue;
          }
          // absent is acceptable only if nothing imports it any more
          let imported = g.modules().any(|m| {
            m.dependencies().values().any(|d| {
              [d.get_code(), d.get_type()].into_iter().flatten().any(|t| g.resolve(t) == &inj.specifier)
            })
          });
          if imported && o["pending_slots"].as_array().unwrap().is_empty() {
            run.violate(
              format!("failed-specifier-has-no-entry@{}", inj.fault),
              format!("{} was answered with {} and is imported, but has no entry at all", inj.specifier, inj.fault),
              case(json!({})),
            );
          }
        }
      }
    }
    // (5) non-interference: everything reachable in the fault-free graph along
    // paths that avoid the faulted specifiers is identical
    let mut tainted: BTreeSet<String> = BTreeSet::new();
    let mut tainted_pkgs: Vec<String> = vec![];
    for inj in &injected {
      tainted.insert(inj.specifier.to_string());
      if inj.specifier.as_str().starts_with("https://jsr.io/@") {
        let parts: Vec<&str> = inj.specifier.path().split('/').collect();
        if parts.len() >= 3 {
          tainted_pkgs.push(format!("{}/{}", parts[1], parts[2]));
        }
      }
      // a redirect fault also touches the place it points to
      if matches!(inj.fault, "redirect-to-other" | "redirect-via-hop") {
        tainted.insert("https://x/other.ts".into());
        tainted.insert("https://x/hop.ts".into());
      }
      if inj.fault == "final-specifier-inside-registry" {
        tainted.insert("https://jsr.io/@s/a/1.0.0/mod.ts".into());
        tainted_pkgs.push("@s/a".into());
        tainted_pkgs.push("@s/b".into());
      }
    }
    let is_tainted = |s: &str| {
      tainted.contains(s)
        || tainted_pkgs.iter().any(|p| s.contains(&format!("jsr.io/{p}/")) || s.starts_with(&format!("jsr:{p}")))
    };
    let mut reach: BTreeSet<ModuleSpecifier> = BTreeSet::new();
    let mut work: Vec<ModuleSpecifier> = all_roots.clone();
    while let Some(s) = work.pop() {
      if is_tainted(s.as_str()) || !reach.insert(s.clone()) {
        continue;
      }
      if let Some(t) = g0.redirects.get(&s) {
        work.push(t.clone());
        continue;
      }
      if let Some(m) = g0.get(&s) {
        for d in m.dependencies().values() {
          for t in [d.get_code(), d.get_type()].into_iter().flatten() {
            work.push(t.clone());
          }
        }
      }
    }
    {
      for s in &reach {
        // whether an npm specifier whose dependency graph fails is an error
        // entry or a module depends on whether it is first reached dynamically
        // or statically; with a second build that is decided by the history
        if npm_mode == 2 && second && s.scheme() == "npm" {
          continue;
        }
        // error entries are compared without the referrer: which of several
        // importers an error names may legitimately change when one of them
        // is itself hit by the fault
        let strip = |v: &Value| match v.get("error_kind") {
          Some(_) => json!({"error_kind": v["error_kind"], "err_specifier": v["err_specifier"], "error_text": v["error_text"]}),
          None => v.clone(),
        };
        let a = &strip(&o["slots"][s.as_str()]);
        let b = &strip(&o0["slots"][s.as_str()]);
        // whether a file that one module imports as an asset is also a module
        // of the graph depends on its *other* importers: not comparable when
        // one of those is hit by a fault
        let module_importer_tainted = g0.modules().any(|m| {
          is_tainted(m.specifier().as_str())
            && m.dependencies().values().any(|d| d.maybe_attribute_type.is_none() && d.get_code().is_some_and(|t| g0.resolve(t) == s))
        });
        if (a["kind"] == "external" || b["kind"] == "external") && module_importer_tainted {
          continue;
        }
        if a != b && !b.is_null() {
          run.violate(
            format!("unaffected-module-changed@{first_fault}"),
            format!("{s} does not depend on the faulted loads but its entry differs from the fault-free build: {} vs {}", brief(a), brief(b)),
            case(json!({"with_fault": a, "fault_free": b})),
          );
          break;
        }
      }
    }
    run.state_key = hash_of(&(fi, npm_mode, second, prefer_cached, format!("{injected:?}"), &log));
    run.nontrivial = !injected.is_empty();
    run.outcome_key = hash_json(&json!([o["slots"].as_object().map(|m| m.iter().map(|(k, v)| (k.clone(), v.get("error_kind").cloned().unwrap_or(v["kind"].clone()))).collect::<serde_json::Map<_, _>>()), o["redirects"]]));
    run.count("faults_injected", injected.len() as u64);
    if ch.describe() {
      run.sample = Some(case(json!({"entries": o["slots"].as_object().map(|m| m.iter().map(|(k, v)| (k.clone(), v.get("error_kind").cloned().unwrap_or(v["kind"].clone()))).collect::<serde_json::Map<_, _>>())})));
    }
    run
  }
}

fn brief(v: &Value) -> String {
  if v.is_null() {
    "absent".into()
  } else if let Some(e) = v.get("error_kind") {
    format!("error {e}")
  } else {
    format!("module {}", v["kind"])
  }
}

pub fn prop(tier: Tier) -> Prop {
  let parts = match tier {
    Tier::Quick => vec![
      Part {
        name: "faults",
        body: Box::new(body(vec![0, 1, 2, 3])),
        modes: vec![Mode::Deviations(0), Mode::Deviations(1), Mode::Deviations(2)],
        what: "up to two faults (any answer of the alphabet) at any loader calls / npm answers of the four fixtures",
      },
      Part {
        name: "faults-x-schedules",
        body: Box::new(body_sched(vec![0, 3], SchedMode::Gated)),
        modes: vec![Mode::Deviations(0), Mode::Deviations(1)],
        what: "plain and npm fixtures: one fault anywhere combined with EVERY completion order of the gated loader futures",
      },
    ],
    Tier::Thorough => vec![
      Part {
        name: "faults",
        body: Box::new(body(vec![0, 1, 2, 3])),
        modes: vec![Mode::Deviations(1), Mode::Deviations(2), Mode::Deviations(3)],
        what: "up to three faults at any loader calls / npm answers of the four fixtures",
      },
      Part {
        name: "faults-x-schedules",
        body: Box::new(body_sched(vec![0, 3], SchedMode::Gated)),
        modes: vec![Mode::Deviations(1), Mode::Deviations(2)],
        what: "plain and npm fixtures: up to two faults anywhere combined with EVERY completion order of the gated loader futures (a fault at a particular point under a particular interleaving)",
      },
    ],
  };
  Prop {
    id: "C03",
    rule: "state = (fixture, npm resolver answer, assignment of an answer kind to every loader call the build issues); deviation = a call answered with something else than the honest answer (10 answer kinds for load, 6 more for registry metadata, 5 for ensure_cached; cache-only probes, Reload retries and deferred content loads are separate calls). Per run: no panic, the build future completes, no unfinished entry / [INTERNAL ERROR], terminal faults are error entries with a referrer, and every specifier reachable in the fault-free graph along paths avoiding the faulted loads has an identical entry. Non-trivial = at least one fault injected.".into(),
    assumptions: vec![
      "four fixtures: plain (static/dynamic/redirect/json/text-asset+module), registry (jsr -> jsr, npm, https URL into the registry), the same with embedded module graphs and cache misses, npm+node".into(),
      "faults are bounded by the number of deviations completed (stated in the evidence); schedules are the all-ready one (schedules are C04's subject)".into(),
      "a subject panic is reported with signature panic@<file>:<line>".into(),
    ],
    parts,
    termination_property: true,
    min_outcomes: 10,
  }
}
