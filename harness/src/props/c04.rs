//! C04 — build results do not depend on load completion order, on hash-map
//! drain order, or on the run.

use crate::engine::*;
use crate::env::*;
use crate::obs::*;
use crate::registry::*;
use crate::report::*;
use deno_graph::GraphKind;
use deno_graph::ModuleGraph;
use deno_graph::ModuleSpecifier;
use serde_json::Value;
use serde_json::json;
use std::rc::Rc;

pub struct Scenario {
  pub name: &'static str,
  pub install: Box<dyn Fn(&ScriptedLoader)>,
  pub roots: Vec<ModuleSpecifier>,
  pub seed_redirects: Vec<(String, String)>,
  pub seed_locker: RecordingLocker,
  pub is_dynamic: bool,
  pub cached_only_empty: bool,
  /// `prefer_cached_jsr_versions` with exactly these version manifests in the cache
  pub prefer_cached: Option<Vec<&'static str>>,
  pub describe: Value,
}

fn files(list: &'static [(&'static str, &'static str)]) -> Box<dyn Fn(&ScriptedLoader)> {
  Box::new(move |l: &ScriptedLoader| {
    for (s, t) in list {
      l.add_text(s, t);
    }
  })
}

fn pkg_a() -> RegPackage {
  RegPackage {
    name: "@s/a".into(),
    versions: vec![
      RegVersion::new("1.0.0", &[("/mod.ts", "import \"./x.ts\";\nimport \"./y.ts\";\nexport const a = 1;\n"), ("/x.ts", "export const x = 1;\n"), ("/y.ts", "import \"./x.ts\";\nexport const y = 1;\n")]),
      RegVersion::new("1.1.0", &[("/mod.ts", "import \"./x.ts\";\nimport \"./y.ts\";\nexport const a = 2;\n"), ("/x.ts", "export const x = 2;\n"), ("/y.ts", "import \"./x.ts\";\nexport const y = 2;\n")]),
    ],
    raw_meta: None,
  }
}

fn pkg_c() -> RegPackage {
  RegPackage {
    name: "@s/c".into(),
    versions: ["1.0.0", "1.0.1", "1.0.2", "1.0.3", "2.0.0", "2.1.0"].iter().map(|v| RegVersion::new(v, &[("/mod.ts", "export const c = 1;\n")])).collect(),
    raw_meta: None,
  }
}

pub const N_SCENARIOS: usize = 18;

pub fn scenario(i: usize) -> Scenario {
  let u = |s: &str| url(s);
  let base = |name: &'static str, f: &'static [(&'static str, &'static str)], roots: &[&str]| Scenario {
    name,
    install: files(f),
    roots: roots.iter().map(|r| u(r)).collect(),
    seed_redirects: vec![],
    seed_locker: RecordingLocker::default(),
    is_dynamic: false,
    cached_only_empty: false,
    prefer_cached: None,
    describe: json!({"files": f.iter().map(|(a, b)| json!([a, b])).collect::<Vec<_>>(), "roots": roots}),
  };
  match i {
    0 => base(
      "two-importers-of-one-missing-target",
      &[
        ("https://x/root.ts", "import \"./a.ts\";\nimport \"./b.ts\";\n"),
        ("https://x/a.ts", "import \"./m.ts\";\n"),
        ("https://x/b.ts", "import \"./m.ts\";\n"),
      ],
      &["https://x/root.ts"],
    ),
    1 => {
      let mut s = base(
        "converging-redirect-chains",
        &[
          ("https://x/root.ts", "import \"./r1.ts\";\nimport \"./r2.ts\";\n"),
          ("https://x/t.ts", "import \"./u.ts\";\nexport const t = 1;\n"),
          ("https://x/u.ts", "export const u = 1;\n"),
        ],
        &["https://x/root.ts"],
      );
      s.install = Box::new(|l| {
        l.add_text("https://x/root.ts", "import \"./r1.ts\";\nimport \"./r2.ts\";\n");
        l.add_text("https://x/t.ts", "import \"./u.ts\";\nexport const t = 1;\n");
        l.add_text("https://x/u.ts", "export const u = 1;\n");
        l.add("https://x/r1.ts", Entry::Redirect(url("https://x/t.ts")));
        l.add("https://x/r2.ts", Entry::Redirect(url("https://x/r3.ts")));
        l.add("https://x/r3.ts", Entry::Redirect(url("https://x/t.ts")));
      });
      s
    }
    2 => {
      let mut s = base(
        "lockfile-redirect-and-two-dynamic-imports-of-a-missing-module",
        &[(
          "https://x/root.ts",
          "await import(\"https://x/a.ts\");\nawait import(\"https://x/c.ts\");\n",
        )],
        &["https://x/root.ts"],
      );
      s.seed_redirects = vec![("https://x/a.ts".into(), "https://x/c.ts".into())];
      s
    }
    3 => base(
      "asset-import-and-module-import-of-one-file",
      &[
        ("https://x/root.ts", "import t from \"./x.ts\" with { type: \"text\" };\nimport \"./y.ts\";\n"),
        ("https://x/y.ts", "import \"./x.ts\";\n"),
        ("https://x/x.ts", "import \"./z.ts\";\nexport const x = 1;\n"),
        ("https://x/z.ts", "export const z = 1;\n"),
      ],
      &["https://x/root.ts"],
    ),
    4 => base(
      "static-and-dynamic-import-from-different-modules",
      &[
        ("https://x/root.ts", "import \"./a.ts\";\nawait import(\"./s.ts\");\n"),
        ("https://x/a.ts", "import \"./s.ts\";\n"),
        ("https://x/s.ts", "import \"./m.ts\";\n"),
      ],
      &["https://x/root.ts"],
    ),
    5 => base(
      "three-dynamic-branches-reaching-one-missing-module",
      &[
        ("https://x/root.ts", "await import(\"./d1.ts\");\nawait import(\"./d2.ts\");\nawait import(\"./d3.ts\");\n"),
        ("https://x/d1.ts", "import \"./m.ts\";\n"),
        ("https://x/d2.ts", "import \"./m.ts\";\n"),
        ("https://x/d3.ts", "import \"./m.ts\";\n"),
      ],
      &["https://x/root.ts"],
    ),
    6 => {
      let mut s = base(
        "two-jsr-requirements-unifying-on-one-version",
        &[
          ("https://x/root.ts", "import \"jsr:@s/a@^1\";\nimport \"./b.ts\";\n"),
          ("https://x/b.ts", "import \"jsr:@s/a@^1.0\";\nimport \"jsr:@s/a@1.0.0\";\n"),
        ],
        &["https://x/root.ts"],
      );
      s.install = Box::new(|l| {
        l.add_text("https://x/root.ts", "import \"jsr:@s/a@^1\";\nimport \"./b.ts\";\n");
        l.add_text("https://x/b.ts", "import \"jsr:@s/a@^1.0\";\nimport \"jsr:@s/a@1.0.0\";\n");
        pkg_a().install(l);
      });
      s
    }
    7 => {
      let mut s = base(
        "registry-package-with-embedded-module-graph-and-deferred-content-loads",
        &[("https://x/root.ts", "import \"jsr:@s/a@1.1\";\n")],
        &["https://x/root.ts"],
      );
      s.install = Box::new(|l| {
        l.add_text("https://x/root.ts", "import \"jsr:@s/a@1.1\";\n");
        let mut p = pkg_a();
        for v in &mut p.versions {
          v.embed_module_graph = true;
        }
        p.install(l);
      });
      s.cached_only_empty = true;
      s
    }
    8 => {
      let mut s = base(
        "https-url-into-registry-racing-a-jsr-import-of-the-same-package",
        &[("https://x/root.ts", "import \"https://jsr.io/@s/a/1.0.0/mod.ts\";\nimport \"jsr:@s/a@1.0\";\n")],
        &["https://x/root.ts"],
      );
      s.install = Box::new(|l| {
        l.add_text("https://x/root.ts", "import \"https://jsr.io/@s/a/1.0.0/mod.ts\";\nimport \"jsr:@s/a@1.0\";\n");
        pkg_a().install(l);
      });
      s
    }
    9 => base(
      "two-deferred-asset-to-module-reloads",
      &[
        ("https://x/root.ts", "import t1 from \"./x.ts\" with { type: \"text\" };\nimport t2 from \"./z.ts\" with { type: \"text\" };\nimport \"./y.ts\";\n"),
        ("https://x/y.ts", "import \"./x.ts\";\nimport \"./z.ts\";\n"),
        ("https://x/x.ts", "import \"./m.ts\";\n"),
        ("https://x/z.ts", "import \"./m.ts\";\n"),
      ],
      &["https://x/root.ts"],
    ),
    10 => {
      let mut s = base(
        "two-dynamic-roots-sharing-a-missing-dependency",
        &[
          ("https://x/r1.ts", "import \"./m.ts\";\n"),
          ("https://x/r2.ts", "import \"./m.ts\";\n"),
        ],
        &["https://x/r1.ts", "https://x/r2.ts"],
      );
      s.is_dynamic = true;
      s
    }
    11 => {
      let mut s = base(
        "lockfile-redirects-and-dynamic-imports-of-both-ends",
        &[
          ("https://x/root.ts", "await import(\"https://x/a.ts\");\nawait import(\"https://x/b.ts\");\nawait import(\"https://x/c.ts\");\n"),
          ("https://x/c.ts", "import \"./m.ts\";\n"),
        ],
        &["https://x/root.ts"],
      );
      s.seed_redirects = vec![
        ("https://x/a.ts".into(), "https://x/c.ts".into()),
        ("https://x/b.ts".into(), "https://x/c.ts".into()),
      ];
      s
    }
    12 | 13 => {
      // the cache-only probes of the candidate versions run concurrently
      let root: &'static str = if i == 12 { "import \"jsr:@s/c@^1\";\n" } else { "import \"jsr:@s/c@^1\";\nimport \"jsr:@s/c@^2\";\nimport \"jsr:@s/c@~1.0.2\";\n" };
      let mut s = base(
        if i == 12 { "prefer-cached-versions-with-one-of-four-manifests-cached" } else { "prefer-cached-versions-three-requirements-partly-cached" },
        &[],
        &["https://x/root.ts"],
      );
      s.install = Box::new(move |l| {
        l.add_text("https://x/root.ts", root);
        pkg_c().install(l);
      });
      s.prefer_cached = Some(if i == 12 { vec!["1.0.1"] } else { vec!["1.0.1", "1.0.2", "2.0.0"] });
      s.describe = json!({"root": root, "registry": "@s/c 1.0.0 1.0.1 1.0.2 1.0.3 2.0.0 2.1.0", "prefer_cached_jsr_versions": true, "cached_version_manifests": s.prefer_cached});
      s
    }
    14 => {
      // the cached package metadata is stale (knows 1.0.0 only); a requirement
      // discovered later cannot be satisfied from it, so the build restarts
      // with cache busting - whatever the aborted first pass already did must
      // not show in the result
      let mut s = base(
        "cache-busting-restart-triggered-by-a-later-import",
        &[],
        &["https://x/root.ts"],
      );
      s.install = Box::new(|l| {
        l.add_text("https://x/root.ts", "import \"jsr:@s/c@^1\";\nimport \"./a.ts\";\nimport \"./w.ts\";\n");
        l.add_text("https://x/a.ts", "import \"./a2.ts\";\n");
        l.add_text("https://x/a2.ts", "import \"jsr:@s/c@^2\";\n");
        l.add_text("https://x/w.ts", "export const w = 1;\n");
        let fresh = pkg_c();
        fresh.install(l);
        let mut stale = pkg_c();
        stale.versions.truncate(1);
        let stale_meta: std::sync::Arc<[u8]> = std::sync::Arc::from(stale.meta_json().to_string().into_bytes());
        *l.injector.borrow_mut() = Some(Box::new(move |call: &LoadCall, _| {
          if call.kind == "load" && call.specifier.as_str() == "https://jsr.io/@s/c/meta.json" && call.cache_setting == deno_graph::source::CacheSetting::Use {
            return Answer::Load(Ok(Some(deno_graph::source::LoadResponse::Module {
              content: stale_meta.clone(),
              mtime: None,
              specifier: call.specifier.clone(),
              maybe_headers: None,
            })));
          }
          Answer::Honest
        }));
      });
      s.describe = json!({"root": "import jsr:@s/c@^1; import ./a.ts (-> ./a2.ts -> jsr:@s/c@^2); import ./w.ts", "registry": "@s/c 1.0.0 1.0.1 1.0.2 1.0.3 2.0.0 2.1.0", "cached_package_metadata": "stale: knows 1.0.0 only; a cache-bypassing load sees all versions"});
      s
    }
    15 => {
      let mut s = base(
        "pre-release-versions-of-one-release",
        &[],
        &["https://x/root.ts"],
      );
      s.install = Box::new(|l| {
        l.add_text("https://x/root.ts", "import \"jsr:@s/p@^1.0.0-beta.1\";\nimport \"jsr:@s/p@1.0.0-beta.2\";\nimport \"jsr:@s/q@^1\";\n");
        RegPackage {
          name: "@s/p".into(),
          versions: ["1.0.0-beta.1", "1.0.0-beta.2", "1.0.0-beta.10", "1.0.0-rc.1"].iter().map(|v| RegVersion::new(v, &[("/mod.ts", "export const p = 1;\n")])).collect(),
          raw_meta: None,
        }
        .install(l);
        // two releases that differ only in build metadata (equal precedence)
        RegPackage {
          name: "@s/q".into(),
          versions: ["0.9.0", "1.0.0+a", "1.0.0+b"].iter().map(|v| RegVersion::new(v, &[("/mod.ts", "export const q = 1;\n")])).collect(),
          raw_meta: None,
        }
        .install(l);
      });
      s.describe = json!({"root": "import jsr:@s/p@^1.0.0-beta.1; import jsr:@s/p@1.0.0-beta.2; import jsr:@s/q@^1", "registry": "@s/p 1.0.0-beta.1 1.0.0-beta.2 1.0.0-beta.10 1.0.0-rc.1; @s/q 0.9.0 1.0.0+a 1.0.0+b (the version maps of the metadata iterate in every order)"});
      s
    }
    16 => {
      // as 7, and one of the files whose content load is deferred is also
      // asked for in a way the builder rejects (css import without the
      // unstable flag): its entry becomes an error while the load is queued
      let mut s = base(
        "embedded-module-graph-with-a-deferred-file-that-a-second-import-turns-into-an-error",
        &[("https://x/root.ts", "import \"jsr:@s/a@1.1\";\nawait import(\"https://jsr.io/@s/a/1.1.0/x.ts\", { with: { type: \"css\" } });\n")],
        &["https://x/root.ts"],
      );
      s.install = Box::new(|l| {
        l.add_text("https://x/root.ts", "import \"jsr:@s/a@1.1\";\nawait import(\"https://jsr.io/@s/a/1.1.0/x.ts\", { with: { type: \"css\" } });\n");
        let mut p = pkg_a();
        for v in &mut p.versions {
          v.embed_module_graph = true;
        }
        p.install(l);
      });
      s.cached_only_empty = true;
      s
    }
    17 => {
      // two different packages resolved in one pass, both leading to a third
      // through overlapping requirements: which of the two is handled first
      // decides nothing - `^1.0` is resolved where the visit order meets it
      let mut s = base(
        "two-packages-in-one-pass-sharing-a-third-through-overlapping-requirements",
        &[("https://x/root.ts", "import \"jsr:@s/p@1\";\nimport \"jsr:@s/q@1\";\nimport \"./w.ts\";\n")],
        &["https://x/root.ts"],
      );
      s.install = Box::new(|l| {
        l.add_text("https://x/root.ts", "import \"jsr:@s/p@1\";\nimport \"jsr:@s/q@1\";\nimport \"./w.ts\";\n");
        // a plain module keeps the queue busy while the packages' metadata arrives in either order
        l.add_text("https://x/w.ts", "export const w = 1;\n");
        RegPackage { name: "@s/p".into(), versions: vec![RegVersion::new("1.0.0", &[("/mod.ts", "import \"jsr:@s/a@^1.0\";\nimport \"./gone.ts\";\nexport const p = 1;\n")])], raw_meta: None }.install(l);
        RegPackage { name: "@s/q".into(), versions: vec![RegVersion::new("1.0.0", &[("/mod.ts", "import \"jsr:@s/a@1.0.0\";\nimport \"https://jsr.io/@s/p/1.0.0/gone.ts\";\nexport const q = 1;\n")])], raw_meta: None }.install(l);
        pkg_a().install(l);
      });
      s
    }
    _ => unreachable!(),
  }
}

pub struct BuildOut {
  pub obs: Value,
  pub locker_final: Value,
  pub locker_writes: Vec<String>,
  pub events: Vec<String>,
  pub load_log: Vec<String>,
  pub max_outstanding: usize,
  pub drive: Result<(), DriveError>,
}

pub fn run_build(s: &Scenario, mode: SchedMode, queued: bool, ch: &Ch, hook: bool) -> BuildOut {
  run_build_susp(s, mode, queued, ch, hook, false)
}

pub fn run_build_susp(s: &Scenario, mode: SchedMode, queued: bool, ch: &Ch, hook: bool, suspensions: bool) -> BuildOut {
  let sched = Sched::new(mode);
  sched.allow_suspensions.set(suspensions);
  let loader = ScriptedLoader::new(sched.clone());
  (s.install)(&loader);
  if s.cached_only_empty {
    *loader.cached_only.borrow_mut() = Some(Default::default());
  }
  if let Some(cached) = &s.prefer_cached {
    *loader.cached_only.borrow_mut() = Some(cached.iter().map(|v| url(&format!("https://jsr.io/@s/c/{v}_meta.json"))).collect());
  }
  let mut locker = s.seed_locker.clone();
  locker.log = Default::default();
  let mut graph = ModuleGraph::new(GraphKind::All);
  graph.fill_from_lockfile(deno_graph::FillFromLockfileOptions {
    redirects: s.seed_redirects.iter().map(|(a, b)| (a.as_str(), b.as_str())),
    package_specifiers: std::iter::empty(),
  });
  let q = QueuedExecutor(sched.clone());
  if hook {
    let ch2 = ch.clone();
    let explore_version_map = s.name.starts_with("pre-release");
    deno_graph::verif_hooks::set_drain_order_callback(Some(Box::new(move |site, n| {
      // the version map of the registry metadata is only explored where it can matter (pre-release scenario)
      if site == "package_versions" && !explore_version_map {
        return (0..n).collect();
      }
      let label: &'static str = match site { "deferred" => "drain_deferred", "probe_candidates" => "order_of_probe_candidates", "package_versions" => "iteration_order_of_the_version_map", _ => "drain_dynamic_branches" };
      ch2.permutation(label, n, true)
    })));
    crate::obs::CALLER_OWNS_ORDER.with(|c| c.set(true));
  }
  let drive = build_graph(
    &mut graph,
    s.roots.clone(),
    &loader,
    BuildCfg {
      is_dynamic: s.is_dynamic,
      unstable_text: true,
      unstable_bytes: true,
      locker: Some(&mut locker),
      executor: if queued { Some(&q) } else { None },
      prefer_cached_jsr_versions: s.prefer_cached.is_some(),
      ..Default::default()
    },
    ch,
  );
  deno_graph::verif_hooks::set_drain_order_callback(None);
  crate::obs::CALLER_OWNS_ORDER.with(|c| c.set(false));
  let mut writes = locker.log.borrow().clone();
  writes.sort();
  BuildOut {
    obs: obs(&graph),
    locker_final: json!({"remote": locker.remote.iter().map(|(k, v)| (k.to_string(), json!(v))).collect::<serde_json::Map<_, _>>(), "manifests": locker.manifests}),
    locker_writes: writes,
    events: sched.events.borrow().clone(),
    load_log: loader
      .log
      .borrow()
      .iter()
      .map(|c| format!("{} {} [{:?}] -> {}", c.kind, c.specifier, c.cache_setting, c.answer))
      .collect(),
    max_outstanding: sched.max_outstanding.get(),
    drive,
  }
}

fn body(ids: Vec<usize>, allow_queued: bool) -> impl Fn(&Ch) -> Run + Sync + Send {
  body_susp(ids, allow_queued, false)
}

fn body_susp(ids: Vec<usize>, allow_queued: bool, suspensions: bool) -> impl Fn(&Ch) -> Run + Sync + Send {
  move |ch: &Ch| {
    let mut run = Run::default();
    let idx = ids[ch.shape("scenario", ids.len())];
    let queued = allow_queued && ch.flag("queued_executor");
    let s = scenario(idx);
    // the schedule every pinned test uses: everything ready immediately
    let reference = run_build(&s, SchedMode::Immediate, false, ch, false);
    // the explored schedule: gated completions, chosen drain orders
    let got = run_build_susp(&s, SchedMode::Gated, queued, ch, true, suspensions);
    run.evals = 1;
    let case = |extra: Value| {
      json!({"scenario": s.name, "world": s.describe, "queued_executor": queued,
        "schedule": got.events, "detail": extra})
    };
    if let Err(e) = &got.drive {
      run.violate(
        format!("build-did-not-finish@{}", s.name),
        format!("{e:?} under the explored schedule"),
        case(json!({})),
      );
    } else {
      for key in ["slots", "redirects", "roots", "imports", "mappings", "packages_with_deps", "yanked", "pending_slots", "has_node_specifier", "npm_dep_graph_result"] {
        if got.obs[key] != reference.obs[key] {
          let (_, txt) = crate::props::c17::diff_detail(&got.obs[key], &reference.obs[key]);
          run.violate(
            format!("graph-depends-on-schedule@{}:{key}", s.name),
            format!("`{key}` differs from the all-ready run: {txt}"),
            case(json!({"explored": got.obs[key], "all_ready": reference.obs[key]})),
          );
          break;
        }
      }
      if got.locker_final != reference.locker_final {
        run.violate(
          format!("lockfile-content-depends-on-schedule@{}", s.name),
          "final lockfile content differs from the all-ready run",
          case(json!({"explored": got.locker_final, "all_ready": reference.locker_final})),
        );
      }
      if got.locker_writes != reference.locker_writes {
        run.violate(
          format!("lockfile-writes-depend-on-schedule@{}", s.name),
          "multiset of lockfile writes differs from the all-ready run",
          case(json!({"explored": got.locker_writes, "all_ready": reference.locker_writes})),
        );
      }
    }
    run.state_key = hash_of(&(idx, queued, &got.events));
    run.nontrivial = got.events.len() >= 3;
    // distinct *schedules*: the order of completion events
    run.outcome_key = hash_of(&(idx, &got.events, &got.load_log));
    run.count("max_outstanding_operations", 0);
    run.count("builds_that_restarted_with_cache_busting", got.load_log.iter().any(|l| l.contains("meta.json") && l.contains("Reload")) as u64);
    // how much the aborted first pass had already loaded differs between schedules
    if s.name.starts_with("cache-busting-restart") {
      let first_pass_loads = got.load_log.iter().take_while(|l| !l.contains("Reload")).count();
      run.count(if first_pass_loads <= 4 { "restart_early" } else { "restart_late" }, 1);
    }
    run.extra_states.push((hash_of(&("world", idx, queued)), true));
    if ch.describe() {
      run.sample = Some(json!({"scenario": s.name, "world": s.describe, "queued_executor": queued, "schedule": got.events, "loads": got.load_log, "max_outstanding": got.max_outstanding}));
    }
    run
  }
}

/// "identically across repeated runs within one process": the same scenario,
/// the same (all-ready) schedule, the hooked hash-order sites pinned - built
/// `REPEATS` times in a row. Every `HashMap` the builder creates gets fresh
/// hasher keys each time, so an iteration order that leaks into the result at a
/// site the hook does not cover shows up as two runs that differ. This part
/// samples hasher states (it cannot enumerate them); the enumeration of orders
/// at the known sites is the business of the other parts.
const REPEATS: usize = 32;
fn body_repeated(ch: &Ch) -> Run {
  let mut run = Run::default();
  let idx = ch.shape("scenario", N_SCENARIOS);
  let queued = false;
  let s = scenario(idx);
  let first = run_build(&s, if queued { SchedMode::Gated } else { SchedMode::Immediate }, queued, ch, false);
  for k in 1..REPEATS {
    let again = run_build(&s, if queued { SchedMode::Gated } else { SchedMode::Immediate }, queued, ch, false);
    run.evals += 1;
    let case = |extra: Value| json!({"scenario": s.name, "world": s.describe, "queued_executor": queued, "run": k, "detail": extra});
    for key in ["slots", "redirects", "roots", "imports", "mappings", "packages_with_deps", "yanked", "pending_slots", "has_node_specifier", "npm_dep_graph_result"] {
      if again.obs[key] != first.obs[key] {
        let (_, txt) = crate::props::c17::diff_detail(&again.obs[key], &first.obs[key]);
        run.violate(
          format!("repeated-run-differs@{}:{key}", s.name),
          format!("run {k} of the same build in the same process gives another `{key}` than run 0: {txt}"),
          case(json!({"run_0": first.obs[key], "this_run": again.obs[key]})),
        );
        break;
      }
    }
    if again.locker_final != first.locker_final || again.locker_writes != first.locker_writes {
      run.violate(format!("repeated-run-differs@{}:lockfile", s.name), format!("run {k} writes the lockfile differently from run 0"), case(json!({"run_0": first.locker_writes, "this_run": again.locker_writes})));
    }
    if again.load_log != first.load_log {
      // the order of loader calls is not part of the result, but it is what
      // the other parts' choice points hang on: report it as a count
      run.count("repeats_whose_loader_calls_came_in_another_order", 1);
    }
    if !run.violations.is_empty() {
      break;
    }
  }
  run.state_key = hash_of(&("repeated", idx, queued));
  run.nontrivial = true;
  run.outcome_key = hash_of(&(idx, &first.obs.to_string()));
  if ch.describe() {
    run.sample = Some(json!({"scenario": s.name, "world": s.describe, "repeats": REPEATS, "loads": first.load_log}));
  }
  run
}

/// Generated worlds: every world of the core space, every schedule.
fn body_worlds(space: crate::world::Space) -> impl Fn(&Ch) -> Run + Sync + Send {
  move |ch: &Ch| {
    let mut run = Run::default();
    let mut w = space.generate(ch, 2, None);
    w.remote = true; // remote modules also exercise the lockfile writes
    let roots = w.roots();
    let is_dynamic = ch.flag("dynamic_roots");
    let kind = *ch.pick("graph_kind", &[GraphKind::All, GraphKind::CodeOnly, GraphKind::TypesOnly]);
    let build = |mode: SchedMode, hook: bool| -> (Value, Value, Vec<String>, Vec<String>, Result<(), DriveError>) {
      let sched = Sched::new(mode);
      let loader = ScriptedLoader::new(sched.clone());
      w.install(&loader);
      let mut locker = RecordingLocker::default();
      let mut graph = ModuleGraph::new(kind);
      if hook {
        let ch2 = ch.clone();
        deno_graph::verif_hooks::set_drain_order_callback(Some(Box::new(move |site, n| {
          if site == "package_versions" {
            return (0..n).collect();
          }
          let label: &'static str = match site { "deferred" => "drain_deferred", "probe_candidates" => "order_of_probe_candidates", _ => "drain_dynamic_branches" };
          ch2.permutation(label, n, true)
        })));
        crate::obs::CALLER_OWNS_ORDER.with(|c| c.set(true));
      }
      let r = build_graph(
        &mut graph,
        roots.clone(),
        &loader,
        BuildCfg { is_dynamic, unstable_text: true, unstable_bytes: true, locker: Some(&mut locker), ..Default::default() },
        ch,
      );
      deno_graph::verif_hooks::set_drain_order_callback(None);
  crate::obs::CALLER_OWNS_ORDER.with(|c| c.set(false));
      let mut writes = locker.log.borrow().clone();
      writes.sort();
      let o = obs(&graph);
      (json!([o["slots"], o["redirects"], o["roots"]]), json!(locker.remote.iter().map(|(k, v)| (k.to_string(), json!(v))).collect::<serde_json::Map<_, _>>()), writes, sched.events.borrow().clone(), r)
    };
    let reference = build(SchedMode::Immediate, false);
    let got = build(SchedMode::Gated, true);
    run.evals = 1;
    let case = |extra: Value| json!({"world": w.describe(), "dynamic_roots": is_dynamic, "graph_kind": format!("{kind:?}"), "schedule": got.3, "detail": extra});
    if got.4.is_err() {
      run.violate("build-did-not-finish@generated-world", format!("{:?}", got.4), case(json!({})));
    } else if got.0 != reference.0 {
      let (_, txt) = crate::props::c17::diff_detail(&got.0[0], &reference.0[0]);
      run.violate("graph-depends-on-schedule@generated-world", format!("differs from the all-ready run: {txt}"), case(json!({"explored": got.0, "all_ready": reference.0})));
    } else if got.1 != reference.1 || got.2 != reference.2 {
      run.violate("lockfile-depends-on-schedule@generated-world", "lockfile content or writes differ from the all-ready run", case(json!({"explored": got.2, "all_ready": reference.2})));
    }
    run.state_key = hash_of(&(w.key(), is_dynamic, format!("{kind:?}"), &got.3));
    run.extra_states.push((w.key(), true));
    run.nontrivial = got.3.len() >= 3;
    run.outcome_key = hash_of(&(w.key(), &got.3));
    if ch.describe() {
      run.sample = Some(case(json!({})));
    }
    run
  }
}

pub fn prop(tier: Tier) -> Prop {
  let parts = match tier {
    Tier::Quick => vec![Part {
      name: "schedules",
      body: Box::new(body(vec![0, 1, 2, 3, 4, 5, 6, 8, 9, 10, 11, 12, 14, 15, 17], false)),
      modes: vec![Mode::Full],
      what: "every completion order of the gated loader futures and every drain order of the builder's hash maps, inline executor",
    },
    Part {
      name: "schedules-embedded",
      body: Box::new(body(vec![7, 16], false)),
      modes: vec![Mode::Deviations(2), Mode::Deviations(3)],
      what: "registry package with embedded module info: deferred content loads (FuturesUnordered), deviation-bounded schedules",
    },
    Part {
      name: "prefer-cached",
      body: Box::new(body(vec![13], false)),
      modes: vec![Mode::Deviations(2), Mode::Deviations(3)],
      what: "prefer_cached_jsr_versions with three requirements on one package and partly cached version manifests: the concurrent cache-only probes complete in any order",
    },
    Part {
      name: "suspensions",
      body: Box::new(body_susp(vec![0, 2, 4, 5, 9, 10], false, true)),
      modes: vec![Mode::Deviations(1), Mode::Deviations(2)],
      what: "a released future may suspend 1 or 2 more times (self-wake) before it reports Ready; completion order as a deviation too",
    },
    Part {
      name: "generated-worlds",
      body: Box::new(body_worlds(crate::world::Space::core(3, 3, crate::world::CORE_KINDS_QUICK))),
      modes: vec![Mode::Full],
      what: "every world of the core alphabet (3 remote specifiers, <= 3 edges from import / dynamic import / import type, static or dynamic roots) x every completion order and drain permutation",
    }],
    Tier::Thorough => vec![
      Part {
        name: "schedules",
        body: Box::new(body(vec![0, 1, 2, 3, 4, 5, 6, 8, 9, 10, 11, 12, 14, 15, 17], false)),
        modes: vec![Mode::Full],
        what: "every completion order and every drain order, inline executor",
      },
      Part {
        name: "schedules-queued",
        body: Box::new(body(vec![6, 8], true)),
        modes: vec![Mode::Deviations(3), Mode::Deviations(4), Mode::Full],
        what: "registry worlds with the queued executor: polling a spawned metadata task is a scheduling choice",
      },
      Part {
        name: "schedules-embedded",
        body: Box::new(body(vec![7, 16], true)),
        modes: vec![Mode::Deviations(3), Mode::Deviations(4), Mode::Deviations(5)],
        what: "registry package with embedded module info: deferred content loads, both executors",
      },
      Part {
        name: "prefer-cached",
        body: Box::new(body(vec![13], true)),
        modes: vec![Mode::Deviations(3), Mode::Deviations(4), Mode::Deviations(5)],
        what: "prefer_cached_jsr_versions with three requirements on one package and partly cached version manifests, both executors",
      },
      Part {
        name: "suspensions",
        body: Box::new(body_susp(vec![0, 1, 2, 3, 4, 5, 6, 8, 9, 10, 11, 12], false, true)),
        modes: vec![Mode::Deviations(2), Mode::Deviations(3), Mode::Deviations(4)],
        what: "a released future may suspend 1 or 2 more times before it reports Ready; completion order as a deviation too",
      },
      Part {
        name: "generated-worlds",
        body: Box::new(body_worlds(crate::world::Space::core(3, 3, crate::world::CORE_KINDS))),
        modes: vec![Mode::Full],
        what: "every world of the core alphabet with kinds TypeScript / missing / JavaScript / JSON / redirect x every completion order and drain permutation",
      },
    ],
  };
  let mut parts = parts;
  // first: a result that differs between two identical runs makes every
  // later part's replay diverge
  parts.insert(0, Part {
    name: "repeated-runs",
    body: Box::new(body_repeated),
    modes: vec![Mode::Full],
    what: "every scenario built 32 times in a row in one process under the same schedule with the hooked sites pinned: fresh hasher keys for every map the builder creates; graph observation and lockfile writes must be identical (samples hasher states - sites the hook does not cover cannot be enumerated)",
  });
  Prop {
    id: "C04",
    rule: "state = (collision world, executor, schedule); a schedule is the order in which the driver completes outstanding gated Loader futures / polls queued tasks plus the permutation in which each hash-map drain (dynamic branches, deferred loads) hands out its entries (feature-guarded hook). Every complete run's graph observation (slots incl. error text and referrers, redirects, packages), final lockfile content and multiset of lockfile writes must equal the run in which every future is ready immediately. distinct_outcomes counts distinct event orders; non-trivial = schedule with >= 3 completion events.".into(),
    assumptions: vec![
      "12 hand-built collision worlds (see samples) plus every generated world of the core alphabet; worlds with more than ~8 simultaneously outstanding operations are not included".into(),
      "extra suspensions of an already-released future (0-2, self-waking) are explored deviation-bounded in their own part".into(),
      "hash-map iteration order is explored through the verif_hooks drain-order hook; order-preserving containers are left alone by the hook".into(),
    ],
    parts,
    termination_property: true,
    min_outcomes: 20,
  }
}

#[allow(dead_code)]
fn _unused(_: Rc<()>) {}
