//! C05 — known checksums are always enforced; new ones are recorded faithfully.

use crate::engine::*;
use crate::env::*;
use crate::obs::*;
use crate::registry::*;
use crate::report::*;
use deno_graph::GraphKind;
use deno_graph::ModuleGraph;
use deno_graph::ModuleSpecifier;
use deno_graph::source::*;
use serde_json::Value;
use serde_json::json;
use std::collections::BTreeMap;
use std::rc::Rc;
use std::sync::Arc;

#[derive(Clone, Copy, PartialEq, Debug)]
enum Lock {
  Absent,
  Matching,
  Mismatching,
}
#[derive(Clone, Copy, PartialEq, Debug)]
enum Serve {
  Honest,
  Tampered,
  TamperedUntilReload,
}

struct Res {
  url: &'static str,
  honest: &'static [u8],
  /// plain remote (lockfile applies), registry file (manifest applies)
  registry: bool,
  declaration: bool,
  asset: bool,
}

const RES: &[Res] = &[
  Res { url: "https://x/m.ts", honest: b"export const m = 1;\n", registry: false, declaration: false, asset: false },
  Res { url: "https://x/dyn.ts", honest: b"export const d = 1;\n", registry: false, declaration: false, asset: false },
  Res { url: "https://x/asset.txt", honest: b"asset text\n", registry: false, declaration: false, asset: true },
  Res { url: "https://x/target.ts", honest: b"export const t = 1;\n", registry: false, declaration: false, asset: false },
  Res { url: "https://x/types.d.ts", honest: b"export declare const ty: number;\n", registry: false, declaration: true, asset: false },
  Res { url: "https://x/bom.ts", honest: b"\xEF\xBB\xBFexport const bom = 1;\n", registry: false, declaration: false, asset: false },
  Res { url: "https://x/latin1.ts", honest: b"// caf\xE9\nexport const l = 1;\n", registry: false, declaration: false, asset: false },
  Res { url: "https://jsr.io/@s/a/1.0.0/mod.ts", honest: b"import \"./sub.ts\";\nexport const a = 1;\n", registry: true, declaration: false, asset: false },
  Res { url: "https://jsr.io/@s/a/1.0.0/sub.ts", honest: b"export const s = 1;\n", registry: true, declaration: false, asset: false },
  Res { url: "https://jsr.io/@s/b/1.0.0-rc.1/mod.ts", honest: b"export const b = 1;\n", registry: true, declaration: false, asset: false },
  Res { url: "https://jsr.io/@s/b/1.0.0-rc.1/data.txt", honest: b"registry asset\n", registry: true, declaration: false, asset: true },
  // imported as ./seeded_from.ts, a redirect that the lockfile may have put into the graph before the build
  Res { url: "https://x/seeded_target.ts", honest: b"export const st = 1;\n", registry: false, declaration: false, asset: false },
];

const ROOT: &str = "import \"./m.ts\";\nawait import(\"./dyn.ts\");\nimport t from \"./asset.txt\" with { type: \"text\" };\nimport \"./redir.ts\";\nimport \"./types.d.ts\";\nimport \"./bom.ts\";\nimport \"./latin1.ts\";\nimport \"./seeded_from.ts\";\nimport \"jsr:@s/a\";\nimport \"https://jsr.io/@s/b/1.0.0-rc.1/mod.ts\";\nimport x from \"https://jsr.io/@s/b/1.0.0-rc.1/data.txt\" with { type: \"text\" };\n";

fn tampered(b: &[u8]) -> Vec<u8> {
  let mut v = b.to_vec();
  v.extend_from_slice(b"// tampered\n");
  v
}

fn body(ch: &Ch) -> Run {
  let mut run = Run::default();
  let embed = ch.flag("embedded_module_graph");
  let cache_miss = embed && ch.flag("cache_probe_misses");
  let mut locks = vec![];
  let mut serves = vec![];
  for _ in RES {
    locks.push([Lock::Absent, Lock::Matching, Lock::Mismatching][ch.choose("lock_state", 3)]);
    serves.push([Serve::Honest, Serve::Tampered, Serve::TamperedUntilReload][ch.choose("served_bytes", 3)]);
  }
  let manifest_lock: Vec<Lock> = (0..2)
    .map(|_| [Lock::Absent, Lock::Matching, Lock::Mismatching][ch.choose("manifest_lock_state", 3)])
    .collect();
  let redirect_lock = [Lock::Absent, Lock::Matching][ch.choose("redirecting_url_lock_state", 2)];
  let lockfile_redirect = ch.choose("lockfile_holds_redirect_seeded_from_to_seeded_target", 2) == 1;
  // the cached metadata of a third package is stale, so that one requirement
  // forces the whole build to restart with cache busting (metadata then loads
  // with CacheSetting::Reload)
  let restart = ch.choose("stale_cached_metadata_forces_a_cache_busting_restart", 2) == 1;
  // the same two imports (two versions of one package in one build) without the stale metadata
  let two_versions = restart || ch.choose("two_versions_of_one_package", 2) == 1;

  let sched = Sched::new(SchedMode::Immediate);
  let loader = ScriptedLoader::new(sched);
  loader.add_text("https://x/root.ts", &if two_versions { format!("{ROOT}import \"jsr:@s/r@1\";\nimport \"jsr:@s/r@2\";\n") } else { ROOT.to_string() });
  let pr = RegPackage {
    name: "@s/r".into(),
    versions: vec![RegVersion::new("1.0.0", &[("/mod.ts", "export const r = 1;\n")]), RegVersion::new("2.0.0", &[("/mod.ts", "export const r = 2;\n")])],
    raw_meta: None,
  };
  pr.install(&loader);
  let stale_meta: Arc<[u8]> = {
    let mut stale = RegPackage { name: "@s/r".into(), versions: vec![RegVersion::new("1.0.0", &[("/mod.ts", "export const r = 1;\n")])], raw_meta: None };
    stale.versions.truncate(1);
    Arc::from(stale.meta_json().to_string().into_bytes())
  };
  loader.add("https://x/redir.ts", Entry::Redirect(url("https://x/target.ts")));
  loader.add("https://x/seeded_from.ts", Entry::Redirect(url("https://x/seeded_target.ts")));
  let pa = RegPackage {
    name: "@s/a".into(),
    versions: vec![{
      let mut v = RegVersion::new("1.0.0", &[]);
      v.files = vec![("/mod.ts".into(), RES[7].honest.to_vec()), ("/sub.ts".into(), RES[8].honest.to_vec())];
      v.exports = json!({".": "./mod.ts"});
      v.embed_module_graph = embed;
      v
    }],
    raw_meta: None,
  };
  let pb = RegPackage {
    name: "@s/b".into(),
    versions: vec![{
      let mut v = RegVersion::new("1.0.0-rc.1", &[]);
      v.files = vec![("/mod.ts".into(), RES[9].honest.to_vec()), ("/data.txt".into(), RES[10].honest.to_vec())];
      v.exports = json!({".": "./mod.ts"});
      v.embed_module_graph = embed;
      v
    }],
    raw_meta: None,
  };
  pa.install(&loader);
  pb.install(&loader);
  if cache_miss {
    *loader.cached_only.borrow_mut() = Some(Default::default());
  }
  // served bytes
  let mut served_first: BTreeMap<ModuleSpecifier, Arc<[u8]>> = BTreeMap::new();
  let mut served_reload: BTreeMap<ModuleSpecifier, Arc<[u8]>> = BTreeMap::new();
  for (i, r) in RES.iter().enumerate() {
    let t = tampered(r.honest);
    let (first, reload): (&[u8], &[u8]) = match serves[i] {
      Serve::Honest => (r.honest, r.honest),
      Serve::Tampered => (&t, &t),
      Serve::TamperedUntilReload => (&t, r.honest),
    };
    served_first.insert(url(r.url), Arc::from(first));
    served_reload.insert(url(r.url), Arc::from(reload));
    loader.add(r.url, Entry::bytes(first));
  }
  {
    let served_reload = Rc::new(served_reload.clone());
    *loader.injector.borrow_mut() = Some(Box::new(move |call: &LoadCall, _| {
      if restart && call.kind == "load" && call.specifier.as_str() == "https://jsr.io/@s/r/meta.json" && call.cache_setting == CacheSetting::Use {
        return Answer::Load(Ok(Some(LoadResponse::Module {
          content: stale_meta.clone(),
          mtime: None,
          specifier: call.specifier.clone(),
          maybe_headers: None,
        })));
      }
      if call.cache_setting == CacheSetting::Reload
        && let Some(b) = served_reload.get(&call.specifier)
      {
        // a cache-bypassing load sees what the server has now
        if let Some(c) = &call.checksum
          && LoaderChecksum::new(c.clone()).check_source(b).is_err()
        {
          return Answer::Load(Err(LoadError::ChecksumIntegrity(ChecksumIntegrityError {
            actual: LoaderChecksum::r#gen(b),
            expected: c.clone(),
          })));
        }
        return Answer::Load(Ok(Some(LoadResponse::Module {
          content: b.clone(),
          mtime: None,
          specifier: call.specifier.clone(),
          maybe_headers: None,
        })));
      }
      Answer::Honest
    }));
  }
  // lockfile
  let mut locker = RecordingLocker::default();
  let wrong = "0000000000000000000000000000000000000000000000000000000000000000".to_string();
  for (i, r) in RES.iter().enumerate() {
    if r.registry {
      continue; // registry files are covered by the manifest, not by the lockfile
    }
    match locks[i] {
      Lock::Absent => {}
      Lock::Matching => {
        locker.remote.insert(url(r.url), LoaderChecksum::r#gen(r.honest));
      }
      Lock::Mismatching => {
        locker.remote.insert(url(r.url), wrong.clone());
      }
    }
  }
  if redirect_lock == Lock::Matching {
    locker.remote.insert(url("https://x/redir.ts"), wrong.clone());
  }
  let manifest_bytes = |p: &RegPackage| p.versions[0].manifest_json(&p.name).to_string().into_bytes();
  for (k, p) in [&pa, &pb].iter().enumerate() {
    match manifest_lock[k] {
      Lock::Absent => {}
      Lock::Matching => {
        locker.manifests.insert(format!("{}@{}", p.name, p.versions[0].version), LoaderChecksum::r#gen(&manifest_bytes(p)));
      }
      Lock::Mismatching => {
        locker.manifests.insert(format!("{}@{}", p.name, p.versions[0].version), wrong.clone());
      }
    }
  }
  let seeded = locker.clone();
  let mut graph = ModuleGraph::new(GraphKind::All);
  if lockfile_redirect {
    graph.fill_from_lockfile(deno_graph::FillFromLockfileOptions {
      redirects: [("https://x/seeded_from.ts", "https://x/seeded_target.ts")].into_iter(),
      package_specifiers: std::iter::empty(),
    });
  }
  let r = build_graph(
    &mut graph,
    vec![url("https://x/root.ts")],
    &loader,
    BuildCfg {
      unstable_text: true,
      unstable_bytes: true,
      locker: Some(&mut locker),
      ..Default::default()
    },
    ch,
  );
  // history: one resource (not an asset - a reload is an attribute-less module
  // load) may be reloaded afterwards; every monitor below covers those loads too
  let reloadable: Vec<usize> = (0..RES.len()).filter(|i| !RES[*i].asset).collect();
  let reload_of = ch.choose("reload_afterwards", 1 + reloadable.len());
  let mut r = r;
  if reload_of > 0 && r.is_ok() {
    r = reload_graph(
      &mut graph,
      vec![url(RES[reloadable[reload_of - 1]].url)],
      &loader,
      BuildCfg {
        unstable_text: true,
        unstable_bytes: true,
        locker: Some(&mut locker),
        ..Default::default()
      },
      ch,
    );
  }
  run.evals = 1;
  let log = loader.log.borrow().clone();
  let writes = locker.log.borrow().clone();
  let scenario = json!({
    "embedded_module_graph": embed, "cache_probe_misses": cache_miss,
    "resources": RES.iter().enumerate().map(|(i, r)| json!({"url": r.url, "lock": format!("{:?}", locks[i]), "served": format!("{:?}", serves[i])})).collect::<Vec<_>>(),
    "manifest_lock": manifest_lock.iter().map(|l| format!("{l:?}")).collect::<Vec<_>>(),
    "redirecting_url_in_lockfile": redirect_lock == Lock::Matching,
    "lockfile_redirect_seeded_from_to_seeded_target": lockfile_redirect,
    "stale_cached_metadata_forces_a_cache_busting_restart": restart,
    "two_versions_of_one_package": two_versions,
    "reloaded_afterwards": if reload_of > 0 { Some(RES[reloadable[reload_of - 1]].url) } else { None },
  });
  let case = |extra: Value| {
    json!({"scenario": scenario,
      "loader_calls": log.iter().map(|c| format!("{} {} [{:?}] checksum={:?} -> {}", c.kind, c.specifier, c.cache_setting, c.checksum.as_deref().map(|s| &s[..8.min(s.len())]), c.answer)).collect::<Vec<_>>(),
      "lockfile_writes": writes, "detail": extra})
  };
  if r.is_err() {
    run.violate("build-did-not-finish", "deadlock", case(json!({})));
    return run;
  }
  let manifest_ok = |k: usize| {
    // the package's version manifest was admitted
    manifest_lock[k] != Lock::Mismatching
  };
  let mut outcome = vec![];
  for (i, r) in RES.iter().enumerate() {
    let u = url(r.url);
    let pkg = if r.url.contains("@s/a") { 0 } else { 1 };
    if r.registry && !manifest_ok(pkg) {
      continue; // nothing of this package may load at all (checked below)
    }
    // ---- M1: the expected checksum, when known, is presented on every load
    let expected: Option<String> = if r.registry {
      Some(LoaderChecksum::r#gen(r.honest))
    } else {
      seeded.remote.get(&u).cloned()
    };
    let calls: Vec<&LoadCall> = log.iter().filter(|c| c.specifier == u).collect();
    if let Some(exp) = &expected {
      for c in &calls {
        if c.checksum.as_deref() != Some(exp.as_str()) {
          run.violate(
            format!(
              "known-checksum-not-presented@{}{}",
              if r.registry { "registry-file" } else { "lockfile-url" },
              if r.asset { "/asset" } else { "" }
            ),
            format!("{} {} [{:?}] presented checksum {:?}, the known checksum is {}", c.kind, c.specifier, c.cache_setting, c.checksum, exp),
            case(json!({})),
          );
          break;
        }
      }
    }
    // ---- M2: rejected content is never admitted
    let first_ok = expected.as_ref().is_none_or(|e| LoaderChecksum::new(e.clone()).check_source(&served_first[&u]).is_ok());
    let reload_ok = expected.as_ref().is_none_or(|e| LoaderChecksum::new(e.clone()).check_source(&served_reload[&u]).is_ok());
    let should_admit = first_ok || (!r.registry && reload_ok);
    let entry = graph.try_get(&u);
    let admitted = matches!(entry, Ok(Some(_)));
    outcome.push((first_ok, reload_ok, admitted));
    if !calls.is_empty() {
      if admitted && !should_admit {
        run.violate(
          format!("rejected-content-admitted@{}", if r.registry { "registry-file" } else { "lockfile-url" }),
          format!("{} failed its checksum on every attempt but the graph holds a module for it", r.url),
          case(json!({})),
        );
      }
      if !admitted && should_admit {
        // consequence of the recorded finding: the checksum written for a
        // lossily decoded file is not the checksum of its bytes, so the very
        // next load of the unchanged file (the reload) fails it
        let wrote_wrong = writes.iter().any(|w| {
          w.starts_with(&format!("set_remote {} ", r.url)) && !w.ends_with(&LoaderChecksum::r#gen(&served_first[&u]))
        });
        let lossy = std::str::from_utf8(&served_first[&u]).is_err();
        run.violate(
          if wrote_wrong && lossy && (restart || (reload_of > 0 && RES[reloadable[reload_of - 1]].url == r.url)) {
            "recorded-checksum-is-not-of-the-bytes-used@lossily-decoded".to_string()
          } else {
            format!("acceptable-content-rejected@{}", if r.registry { "registry-file" } else { "lockfile-url" })
          },
          format!("{} passes its checksum ({}) but the graph holds {:?}", r.url, if first_ok { "first attempt" } else { "after the cache-bypassing retry" }, entry.as_ref().map(|_| ()).map_err(|e| e.to_string())),
          case(json!({})),
        );
      }
      if !should_admit {
        match entry {
          Err(e) if e.to_string().contains("Integrity check failed") => {}
          other => run.violate(
            "mismatch-is-not-an-integrity-error",
            format!("{} was rejected for a checksum mismatch; entry is {:?}", r.url, other.map(|m| m.map(|m| m.specifier().to_string())).map_err(|e| e.to_string())),
            case(json!({})),
          ),
        }
      }
      // at most one cache-bypassing retry for non-registry URLs, none for registry files
      let reloads = calls.iter().filter(|c| c.cache_setting == CacheSetting::Reload).count();
      // (one per request: the reload afterwards is a second request)
      let requests = 1 + (reload_of > 0 && RES[reloadable[reload_of - 1]].url == r.url) as usize + restart as usize;
      if reloads > if r.registry { 0 } else { requests } {
        run.violate(
          "too-many-cache-bypassing-retries",
          format!("{} was reloaded {reloads} times", r.url),
          case(json!({})),
        );
      }
    }
    // ---- M4: new remote non-declaration modules are recorded faithfully, existing entries untouched
    let w: Vec<&String> = writes.iter().filter(|w| w.starts_with(&format!("set_remote {} ", r.url))).collect();
    if seeded.remote.contains_key(&u) || r.registry || r.declaration || r.asset {
      if !w.is_empty() {
        run.violate(
          format!(
            "lockfile-entry-written-unexpectedly@{}",
            if seeded.remote.contains_key(&u) { "existing-entry" } else if r.registry { "registry-file" } else if r.declaration { "declaration" } else { "asset" }
          ),
          format!("{:?}", w),
          case(json!({})),
        );
      }
    } else if admitted {
      let used: &[u8] = if first_ok { &served_first[&u] } else { &served_reload[&u] };
      let want = format!("set_remote {} {}", r.url, LoaderChecksum::r#gen(used));
      if w.len() != 1 || *w[0] != want {
        let bom = used.starts_with(&[0xEF, 0xBB, 0xBF]);
        let lossy = std::str::from_utf8(used).is_err();
        run.violate(
          if bom && w.len() == 1 {
            "recorded-checksum-is-not-of-the-bytes-used@utf8-bom".to_string()
          } else if lossy && w.len() == 1 {
            "recorded-checksum-is-not-of-the-bytes-used@lossily-decoded".to_string()
          } else {
            "new-remote-module-not-recorded-faithfully".to_string()
          },
          format!("expected exactly one lockfile write `{want}`, got {w:?}"),
          case(json!({})),
        );
      }
    }
  }
  // a checksummed URL that redirects is rejected
  if redirect_lock == Lock::Matching {
    match graph.try_get(&url("https://x/redir.ts")) {
      Err(e) if e.to_string().contains("Integrity check failed") => {}
      other => run.violate(
        "checksummed-url-redirect-accepted",
        format!("https://x/redir.ts has a lockfile checksum and answered with a redirect; entry: {:?}", other.map(|m| m.map(|m| m.specifier().to_string())).map_err(|e| e.to_string())),
        case(json!({})),
      ),
    }
  }
  // version manifests
  for (k, p) in [&pa, &pb].iter().enumerate() {
    let nv = format!("{}@{}", p.name, p.versions[0].version);
    let meta_url = url(&p.version_meta_url(&p.versions[0]));
    let calls: Vec<&LoadCall> = log.iter().filter(|c| c.specifier == meta_url).collect();
    if let Some(exp) = seeded.manifests.get(&nv) {
      for c in &calls {
        if c.checksum.as_deref() != Some(exp.as_str()) {
          run.violate(
            "known-checksum-not-presented@version-manifest",
            format!("load of {meta_url} presented {:?}, lockfile has {exp}", c.checksum),
            case(json!({})),
          );
        }
      }
    }
    let w: Vec<&String> = writes.iter().filter(|w| w.starts_with(&format!("set_manifest {nv} "))).collect();
    match manifest_lock[k] {
      Lock::Absent => {
        let want = format!("set_manifest {nv} {}", LoaderChecksum::r#gen(&manifest_bytes(p)));
        // recorded (possibly by both the jsr: and the https: route, but always the same value)
        if w.is_empty() || w.iter().any(|x| **x != want) {
          run.violate(
            "new-manifest-not-recorded-faithfully",
            format!("expected lockfile write(s) `{want}`, got {w:?}"),
            case(json!({})),
          );
        }
      }
      _ => {
        if !w.is_empty() {
          run.violate("lockfile-entry-written-unexpectedly@existing-manifest", format!("{w:?}"), case(json!({})));
        }
      }
    }
    if manifest_lock[k] == Lock::Mismatching {
      // nothing of the package is admitted
      for r in RES.iter().filter(|r| r.registry && r.url.contains(&p.name)) {
        if matches!(graph.try_get(&url(r.url)), Ok(Some(_))) {
          run.violate(
            "rejected-content-admitted@package-with-rejected-manifest",
            format!("{} is in the graph although the manifest of {nv} failed its lockfile checksum", r.url),
            case(json!({})),
          );
        }
      }
    }
  }
  if two_versions {
    // both versions of @s/r are new to the lockfile: each manifest is recorded
    for v in &pr.versions {
      let nv = format!("@s/r@{}", v.version);
      let want = format!("set_manifest {nv} {}", LoaderChecksum::r#gen(&v.manifest_json("@s/r").to_string().into_bytes()));
      let w: Vec<&String> = writes.iter().filter(|w| w.starts_with(&format!("set_manifest {nv} "))).collect();
      if w.is_empty() || w.iter().any(|x| **x != want) {
        run.violate(
          "new-manifest-not-recorded-faithfully@second-version-of-a-package",
          format!("expected lockfile write(s) `{want}`, got {w:?}"),
          case(json!({})),
        );
      }
    }
  }
  run.state_key = hash_json(&scenario);
  run.nontrivial = locks.iter().any(|l| *l != Lock::Absent) || serves.iter().any(|s| *s != Serve::Honest);
  run.outcome_key = hash_of(&format!("{outcome:?}"));
  if ch.describe() {
    run.sample = Some(case(json!({})));
  }
  run
}

pub fn prop(tier: Tier) -> Prop {
  let modes = match tier {
    Tier::Quick => vec![Mode::Deviations(1), Mode::Deviations(2), Mode::Deviations(3)],
    Tier::Thorough => vec![Mode::Deviations(2), Mode::Deviations(3), Mode::Deviations(4)],
  };
  Prop {
    id: "C05",
    rule: "one composite world (root importing a remote module statically / dynamically / as text asset / through a redirect / a declaration file / a module with a UTF-8 BOM / a module with invalid UTF-8, a jsr: package with a sub-path import, an https URL into the registry as module and as text asset); state = assignment of {lockfile absent, matching, mismatching} x {bytes honest, tampered, tampered until a cache-bypassing reload} to each of the 11 resources, lockfile state of the 2 version manifests and of the redirecting URL, embedded module graph on/off, cache probe hit/miss. A monitor over the Loader and Locker call logs checks M1 presentation, M2 admission/retries, M3 redirect rejection, M4 recording. Non-trivial = some non-default lock state or served bytes.".into(),
    assumptions: vec![
      "the scripted loader verifies a presented checksum exactly like a real cache (LoaderChecksum::check_source) and otherwise serves what it is told to".into(),
      "prefer_cached_jsr_versions stays off (its cache-only presence probe deliberately carries no checksum)".into(),
      "deviation-bounded from the all-honest / empty-lockfile default".into(),
    ],
    parts: vec![Part {
      name: "checksums",
      body: Box::new(body),
      modes,
      what: "lockfile x served-bytes assignments over the composite world",
    }],
    termination_property: false,
    min_outcomes: 5,
  }
}
