//! C06 — JSR requirements resolve to the specified version (four-tier rule).

use crate::engine::*;
use crate::env::*;
use crate::obs::*;
use crate::registry::*;
use crate::report::*;
use chrono::TimeZone;
use deno_graph::packages::*;
use deno_semver::Version;
use deno_semver::package::PackageReq;
use serde_json::json;
use std::collections::HashMap;
use std::collections::HashSet;

#[derive(Clone, Copy, PartialEq, Debug)]
enum Created {
  None,
  Before,
  At,
  After,
}

#[derive(Clone, Copy, PartialEq, Debug)]
struct VState {
  present: bool,
  yanked: bool,
  created: Created,
}

const ALL_VERSIONS: [&str; 4] = ["1.0.0", "1.1.0", "1.2.0", "2.0.0"];
const REQS: [&str; 6] = ["*", "^1", "~1.1", "1.0.0", "^2", ">=1.1 <2"];

fn cutoff() -> chrono::DateTime<chrono::Utc> {
  chrono::Utc.with_ymd_and_hms(2025, 6, 1, 12, 0, 0).unwrap()
}

fn created_at(c: Created) -> Option<chrono::DateTime<chrono::Utc>> {
  match c {
    Created::None => None,
    Created::Before => Some(cutoff() - chrono::Duration::seconds(1)),
    Created::At => Some(cutoff()),
    Created::After => Some(cutoff() + chrono::Duration::seconds(1)),
  }
}

#[derive(Debug, PartialEq)]
enum Expected {
  /// (version, Some(is_yanked) when the statement fixes it)
  Version(String, Option<bool>, &'static str),
  NotFound { date_note: bool },
}

/// The declarative reference for the statement: filter + max over a sorted Vec.
fn reference(
  registry: &[(Version, VState)],
  req: &PackageReq,
  existing: &[Version],
  cached: &HashSet<Version>,
  date_applies: bool,
) -> Expected {
  let matches = |v: &Version| req.version_req.matches(v);
  // "not newer than the configured newest-dependency date"
  let date_ok = |s: &VState| {
    !date_applies
      || match s.created {
        Created::None | Created::Before | Created::At => true,
        Created::After => false,
      }
  };
  // tier 1: highest already-selected version satisfying the requirement
  let mut t1: Vec<&Version> = existing.iter().filter(|v| matches(v)).collect();
  t1.sort();
  if let Some(v) = t1.last() {
    return Expected::Version(v.to_string(), None, "already-selected");
  }
  let live_ok: Vec<&(Version, VState)> = registry
    .iter()
    .filter(|(v, s)| s.present && !s.yanked && matches(v) && date_ok(s))
    .collect();
  // tier 1.5: preferring already-cached manifests when that mode is on
  if !cached.is_empty() {
    let mut c: Vec<&Version> = live_ok
      .iter()
      .filter(|(v, _)| cached.contains(v))
      .map(|(v, _)| v)
      .collect();
    c.sort();
    if let Some(v) = c.last() {
      return Expected::Version(v.to_string(), Some(false), "cached");
    }
  }
  let mut t2: Vec<&Version> = live_ok.iter().map(|(v, _)| v).collect();
  t2.sort();
  if let Some(v) = t2.last() {
    return Expected::Version(v.to_string(), Some(false), "live");
  }
  let mut t3: Vec<&Version> = registry
    .iter()
    .filter(|(v, s)| s.present && s.yanked && matches(v) && date_ok(s))
    .map(|(v, _)| v)
    .collect();
  t3.sort();
  if let Some(v) = t3.last() {
    return Expected::Version(v.to_string(), Some(true), "yanked");
  }
  let excluded_by_date = registry
    .iter()
    .any(|(v, s)| s.present && matches(v) && !date_ok(s));
  Expected::NotFound {
    date_note: excluded_by_date,
  }
}

fn body(n_versions: usize, with_at: bool) -> impl Fn(&Ch) -> Run + Sync + Send {
  move |ch: &Ch| {
    let mut run = Run::default();
    // registry: one state per version, chosen by the explorer
    let created_opts: Vec<Created> = if with_at {
      vec![Created::None, Created::Before, Created::At, Created::After]
    } else {
      vec![Created::None, Created::Before, Created::After]
    };
    let mut states: Vec<VState> = vec![VState {
      present: false,
      yanked: false,
      created: Created::None,
    }];
    for yanked in [false, true] {
      for c in &created_opts {
        states.push(VState {
          present: true,
          yanked,
          created: *c,
        });
      }
    }
    let versions: Vec<Version> = ALL_VERSIONS[..n_versions]
      .iter()
      .map(|v| Version::parse_standard(v).unwrap())
      .collect();
    let registry: Vec<(Version, VState)> = versions
      .iter()
      .map(|v| (v.clone(), states[ch.shape("version_state", states.len())]))
      .collect();
    let info = JsrPackageInfo {
      versions: registry
        .iter()
        .filter(|(_, s)| s.present)
        .map(|(v, s)| {
          (
            v.clone(),
            JsrPackageInfoVersion {
              created_at: created_at(s.created),
              yanked: s.yanked,
            },
          )
        })
        .collect::<HashMap<_, _>>(),
      latest: None,
    };
    // selectable "already selected" versions: the registry's domain plus one
    // version the registry does not know
    let mut selectable = versions.clone();
    selectable.push(Version::parse_standard("1.1.5").unwrap());
    let name = deno_semver::package::PackageName::from_str("@s/a");
    // (date set?, exclusion) configurations
    let configs: Vec<(&str, JsrVersionResolver, bool)> = vec![
      ("no-date", JsrVersionResolver::default(), false),
      (
        "date",
        JsrVersionResolver {
          newest_dependency_date_options: NewestDependencyDateOptions::from_date(cutoff()),
        },
        true,
      ),
      (
        "date+excluded-by-name",
        JsrVersionResolver {
          newest_dependency_date_options: NewestDependencyDateOptions {
            date: Some(NewestDependencyDate(cutoff())),
            exclude_jsr_pkgs: [name.clone()].into_iter().collect(),
            exclude_jsr_pkg_prefixes: vec![],
          },
        },
        false,
      ),
      (
        "date+excluded-by-prefix",
        JsrVersionResolver {
          newest_dependency_date_options: NewestDependencyDateOptions {
            date: Some(NewestDependencyDate(cutoff())),
            exclude_jsr_pkgs: Default::default(),
            exclude_jsr_pkg_prefixes: vec![deno_semver::package::PackageName::from_str("@s/")],
          },
        },
        false,
      ),
      (
        "date+near-miss-exclusions",
        JsrVersionResolver {
          newest_dependency_date_options: NewestDependencyDateOptions {
            date: Some(NewestDependencyDate(cutoff())),
            // near misses of an exact exclusion: a longer name, and names that are proper prefixes of the package's
            exclude_jsr_pkgs: ["@s/ab", "@s/", "@s", "@"].iter().map(|n| deno_semver::package::PackageName::from_str(n))
              .collect(),
            exclude_jsr_pkg_prefixes: vec![deno_semver::package::PackageName::from_str("@t/")],
          },
        },
        true,
      ),
    ];
    let reqs: Vec<PackageReq> = REQS
      .iter()
      .map(|r| PackageReq {
        name: name.clone(),
        version_req: deno_semver::VersionReq::parse_from_npm(r).unwrap(),
      })
      .collect();
    let mut evals = 0u64;
    let mut outcomes: HashSet<u64> = HashSet::new();
    'outer: for (cfg_name, resolver, date_applies) in &configs {
      let pr = resolver.get_for_package(&name, &info);
      for req in &reqs {
        for ex_mask in 0..(1u32 << selectable.len()) {
          let existing: Vec<Version> = selectable
            .iter()
            .enumerate()
            .filter(|(i, _)| ex_mask & (1 << i) != 0)
            .map(|(_, v)| v.clone())
            .collect();
          for c_mask in 0..(1u32 << versions.len()) {
            let cached: HashSet<Version> = versions
              .iter()
              .enumerate()
              .filter(|(i, _)| c_mask & (1 << i) != 0)
              .map(|(_, v)| v.clone())
              .collect();
            evals += 1;
            let want = reference(&registry, req, &existing, &cached, *date_applies);
            let got = pr.resolve_version(req, existing.iter(), &cached);
            let ok = match (&got, &want) {
              (Ok(g), Expected::Version(v, y, _)) => {
                g.version.to_string() == *v && y.is_none_or(|y| y == g.is_yanked)
              }
              (Err(e), Expected::NotFound { date_note }) => {
                e.newest_dependency_date.is_some() == *date_note
              }
              _ => false,
            };
            outcomes.insert(hash_of(&format!("{want:?}")));
            if !ok {
              let got_s = match &got {
                Ok(g) => format!("Ok({} yanked={})", g.version, g.is_yanked),
                Err(e) => format!(
                  "NotFound(date_note={})",
                  e.newest_dependency_date.is_some()
                ),
              };
              // signature: which tier of the rule + whether the equality
              // boundary of the cutoff is involved
              let at_boundary = registry.iter().any(|(v, s)| {
                s.present && s.created == Created::At && req.version_req.matches(v)
              }) && *date_applies;
              let tier = match &want {
                Expected::Version(_, _, t) => *t,
                Expected::NotFound { .. } => "not-found",
              };
              // does the answer become right if "created exactly at the
              // cutoff" were treated as excluded? then it is the boundary
              // finding and nothing else
              let sig = if at_boundary && {
                let mut alt = registry.clone();
                for (_, s) in alt.iter_mut() {
                  if s.created == Created::At {
                    s.created = Created::After;
                  }
                }
                let w2 = reference(&alt, req, &existing, &cached, *date_applies);
                match (&got, &w2) {
                  (Ok(g), Expected::Version(v, y, _)) => {
                    g.version.to_string() == *v && y.is_none_or(|y| y == g.is_yanked)
                  }
                  (Err(e), Expected::NotFound { date_note }) => {
                    e.newest_dependency_date.is_some() == *date_note
                  }
                  _ => false,
                }
              } {
                "cutoff-exclusive@created_at==date".to_string()
              } else {
                format!("wrong-selection@tier-{tier}")
              };
              run.violate(
                sig,
                format!("resolve_version({}@{}) = {got_s}, the rule gives {want:?}", req.name, req.version_req),
                json!({
                  "config": cfg_name,
                  "registry": registry.iter().map(|(v, s)| format!("{v}: {s:?}")).collect::<Vec<_>>(),
                  "requirement": format!("{}@{}", req.name, req.version_req),
                  "already_selected": existing.iter().map(|v| v.to_string()).collect::<Vec<_>>(),
                  "cached": cached.iter().map(|v| v.to_string()).collect::<Vec<_>>(),
                }),
              );
              if run.violations.len() >= 4 {
                break 'outer;
              }
            }
          }
        }
      }
    }
    run.evals = evals;
    run.state_key = hash_of(&format!("{registry:?}"));
    run.nontrivial = registry.iter().filter(|(_, s)| s.present).count() >= 2;
    run.outcome_key = hash_of(&{
      let mut v: Vec<u64> = outcomes.into_iter().collect();
      v.sort();
      v
    });
    if ch.describe() {
      run.sample = Some(json!({
        "registry": registry.iter().map(|(v, s)| format!("{v}: {s:?}")).collect::<Vec<_>>(),
        "inner_loop": "5 date/exclusion configurations x 6 requirements x all subsets of already-selected versions (registry domain + 1.1.5) x all subsets of cached versions",
        "evaluations_in_this_run": evals,
      }));
    }
    run
  }
}

const G_STATES: &[(&str, bool, bool, Created)] = &[
  ("live", true, false, Created::Before),
  ("absent", false, false, Created::None),
  ("yanked", true, true, Created::Before),
  ("live-after-cutoff", true, false, Created::After),
  ("live-at-cutoff", true, false, Created::At),
  ("yanked-after-cutoff", true, true, Created::After),
  ("live-no-date", true, false, Created::None),
];
const G_IMPORTS: &[&str] = &["", "jsr:@s/a", "jsr:@s/a@^1", "jsr:@s/a@~1.1", "jsr:@s/a@1.0.0", "jsr:@s/a@^2", "jsr:@s/a@1", "jsr:@s/a@latest", "jsr:@s/a@^1.1"];

/// Graph level: real builds against a scripted registry; the function-level
/// reference is applied in visit order with the selections accumulated so far.
fn body_graph(ch: &Ch) -> Run {
  let mut run = Run::default();
  let versions: Vec<Version> = ALL_VERSIONS.iter().map(|v| Version::parse_standard(v).unwrap()).collect();
  let states: Vec<usize> = versions.iter().map(|_| ch.choose("version_state", G_STATES.len())).collect();
  let registry: Vec<(Version, VState)> = versions
    .iter()
    .zip(&states)
    .map(|(v, s)| {
      let st = G_STATES[*s];
      (v.clone(), VState { present: st.1, yanked: st.2, created: st.3 })
    })
    .collect();
  let mut imports: Vec<&str> = vec![];
  for k in 0..3 {
    let i = ch.choose("import", G_IMPORTS.len());
    // default program: one unconstrained import
    let i = if k == 0 && i == 0 { 1 } else { i };
    if !G_IMPORTS[i].is_empty() && !imports.contains(&G_IMPORTS[i]) {
      imports.push(G_IMPORTS[i]);
    }
  }
  let seed = ch.choose("lockfile_selection", 4);
  let date_cfg = ch.choose("date_config", 3);
  let prefer = ch.choose("prefer_cached", 4);
  let cached_sets: [&[&str]; 4] = [&[], &["1.0.0"], &["1.1.0"], &["1.0.0", "1.2.0"]];
  let cached: HashSet<Version> = cached_sets[prefer].iter().map(|v| Version::parse_standard(v).unwrap()).collect();
  // stale registry metadata in the loader's cache (the versions published later
  // are missing from it; a cache-bypassing load sees all of them). 1: the
  // build starts from an empty graph - a requirement the stale metadata cannot
  // satisfy restarts the whole build with cache busting. 2: the graph already
  // has a root - no restart; the one package's metadata is refreshed and the
  // requirement is retried at once, before any later requirement is looked at
  let stale_mode = if prefer > 0 { 0 } else { ch.choose("stale_cached_metadata", 3) };
  const STALE_VERSIONS: [&str; 2] = ["1.0.0", "1.1.0"];
  // fixture
  let sched = Sched::new(SchedMode::Immediate);
  let loader = ScriptedLoader::new(sched);
  let mut root = String::new();
  // a neighbour package with the same requirement text but other versions,
  // imported before or after: selections must not leak between packages
  let neighbour = ch.choose("neighbour_package_imported", 3);
  if neighbour == 1 {
    root.push_str("import * as n from \"jsr:@s/n@^1\";\n");
  }
  for (i, t) in imports.iter().enumerate() {
    root.push_str(&format!("import * as i{i} from \"{t}\";\n"));
  }
  if neighbour == 2 {
    root.push_str("import * as n from \"jsr:@s/n@^1\";\n");
  }
  loader.add_text("https://x/root.ts", &root);
  if neighbour > 0 {
    let before = created_at(Created::Before).map(|d| serde_json::to_value(d).unwrap().as_str().unwrap().to_string());
    RegPackage {
      name: "@s/n".into(),
      versions: ["1.0.5", "1.3.0", "2.1.0"]
        .iter()
        .map(|v| {
          let mut rv = RegVersion::new(v, &[("/mod.ts", "export const n = 1;\n")]);
          rv.created_at = before.clone();
          rv
        })
        .collect(),
      raw_meta: None,
    }
    .install(&loader);
  }
  let pkg = RegPackage {
    name: "@s/a".into(),
    versions: registry
      .iter()
      .filter(|(_, s)| s.present)
      .map(|(v, s)| {
        let mut rv = RegVersion::new(&v.to_string(), &[("/mod.ts", "export const a = 1;\n")]);
        rv.yanked = s.yanked;
        rv.created_at = created_at(s.created).map(|d| serde_json::to_value(d).unwrap().as_str().unwrap().to_string());
        rv
      })
      .collect(),
    raw_meta: None,
  };
  pkg.install(&loader);
  if stale_mode > 0 {
    let stale = RegPackage { name: "@s/a".into(), versions: pkg.versions.iter().filter(|v| STALE_VERSIONS.contains(&v.version.as_str())).cloned().collect(), raw_meta: None };
    let stale_meta: std::sync::Arc<[u8]> = std::sync::Arc::from(stale.meta_json().to_string().into_bytes());
    *loader.injector.borrow_mut() = Some(Box::new(move |call: &LoadCall, _| {
      if call.kind == "load" && call.specifier.as_str() == "https://jsr.io/@s/a/meta.json" && call.cache_setting == deno_graph::source::CacheSetting::Use {
        return Answer::Load(Ok(Some(deno_graph::source::LoadResponse::Module {
          content: stale_meta.clone(),
          mtime: None,
          specifier: call.specifier.clone(),
          maybe_headers: None,
        })));
      }
      Answer::Honest
    }));
  }
  if prefer > 0 {
    *loader.cached_only.borrow_mut() = Some(cached.iter().map(|v| url(&format!("https://jsr.io/@s/a/{v}_meta.json"))).collect());
  }
  let mut graph = deno_graph::ModuleGraph::new(deno_graph::GraphKind::All);
  let seeded: Option<(&str, &str)> = match seed {
    1 => Some(("@s/a@^1", "1.0.0")),
    2 => Some(("@s/a@^1", "1.1.5")),
    3 => Some(("@s/a@2", "2.0.0")),
    _ => None,
  };
  let mut selected: Vec<Version> = vec![];
  if let Some((req, v)) = seeded {
    let dep = deno_semver::jsr::JsrDepPackageReq::jsr(PackageReq::from_str(req).unwrap());
    graph.fill_from_lockfile(deno_graph::FillFromLockfileOptions {
      redirects: std::iter::empty(),
      package_specifiers: [(&dep, v)].into_iter(),
    });
    selected.push(Version::parse_standard(v).unwrap());
  }
  if stale_mode == 2 {
    loader.add_text("https://x/first.ts", "export {};\n");
    if build_graph(&mut graph, vec![url("https://x/first.ts")], &loader, BuildCfg::default(), ch).is_err() {
      run.violate("build-did-not-finish", "deadlock in the preliminary build", json!({}));
      return run;
    }
  }
  let name = deno_semver::package::PackageName::from_str("@s/a");
  let resolver = match date_cfg {
    0 => JsrVersionResolver::default(),
    1 => JsrVersionResolver { newest_dependency_date_options: NewestDependencyDateOptions::from_date(cutoff()) },
    _ => JsrVersionResolver {
      newest_dependency_date_options: NewestDependencyDateOptions {
        date: Some(NewestDependencyDate(cutoff())),
        exclude_jsr_pkgs: [name.clone()].into_iter().collect(),
        exclude_jsr_pkg_prefixes: vec![],
      },
    },
  };
  let date_applies = date_cfg == 1;
  let r = build_graph(
    &mut graph,
    vec![url("https://x/root.ts")],
    &loader,
    BuildCfg {
      jsr_version_resolver: Some(resolver),
      prefer_cached_jsr_versions: prefer > 0,
      ..Default::default()
    },
    ch,
  );
  run.evals = 1;
  let desc = json!({
    "registry": registry.iter().zip(&states).map(|((v, _), s)| format!("{v}: {}", G_STATES[*s].0)).collect::<Vec<_>>(),
    "program": root, "lockfile_selection": seeded, "date_config": (["none", "cutoff", "cutoff-but-package-excluded"][date_cfg]),
    "prefer_cached_jsr_versions": prefer > 0, "cached_version_manifests": cached_sets[prefer],
    "neighbour_package": (["none", "imported first", "imported last"][neighbour]),
    "stale_cached_metadata": (["no", "yes (versions 1.2.0 and 2.0.0 missing), build from an empty graph", "yes (versions 1.2.0 and 2.0.0 missing), graph already has a root"][stale_mode]),
  });
  if r.is_err() {
    run.violate("build-did-not-finish", "deadlock", desc.clone());
    return run;
  }
  // reference in visit order
  let mut exp_map: std::collections::BTreeMap<PackageReq, String> = Default::default();
  let mut may_be_yanked: std::collections::BTreeSet<String> = Default::default();
  let mut exp_yanked: std::collections::BTreeSet<String> = Default::default();
  let mut outcome = vec![];
  if let Some((req, v)) = seeded {
    exp_map.insert(PackageReq::from_str(req).unwrap(), format!("@s/a@{v}"));
  }
  // which metadata the selection sees
  let stale_registry: Vec<(Version, VState)> = registry
    .iter()
    .map(|(v, s)| (v.clone(), VState { present: s.present && STALE_VERSIONS.contains(&v.to_string().as_str()), ..*s }))
    .collect();
  let any_not_found_under = |view: &Vec<(Version, VState)>| -> bool {
    let mut sel = selected.clone();
    for t in &imports {
      let req_text = t.strip_prefix("jsr:@s/a").unwrap();
      let req_text = req_text.strip_prefix('@').unwrap_or("*");
      if req_text == "latest" {
        continue;
      }
      let req = PackageReq { name: name.clone(), version_req: deno_semver::VersionReq::parse_from_specifier(req_text).unwrap() };
      match reference(view, &req, &sel, &HashSet::new(), date_applies) {
        Expected::Version(v, _, _) => {
          let ver = Version::parse_standard(&v).unwrap();
          if !sel.contains(&ver) {
            sel.push(ver);
          }
        }
        Expected::NotFound { .. } => return true,
      }
    }
    false
  };
  if stale_mode == 1 {
    run.count("builds_that_restart_with_cache_busting_because_of_stale_metadata", any_not_found_under(&stale_registry) as u64);
  }
  let mut sees_fresh = match stale_mode {
    0 => true,
    1 => any_not_found_under(&stale_registry), // the restart re-reads everything
    _ => false,
  };
  for t in &imports {
    let req_text = t.strip_prefix("jsr:@s/a").unwrap();
    let req_text = req_text.strip_prefix('@').unwrap_or("*");
    if req_text == "latest" {
      match graph.try_get(&url(t)) {
        Err(e) if e.to_string().to_lowercase().contains("tag") => {}
        other => run.violate("version-tag-not-rejected", format!("{t}: {:?}", other.map(|m| m.map(|m| m.specifier().to_string())).map_err(|e| e.to_string())), desc.clone()),
      }
      outcome.push("tag".to_string());
      continue;
    }
    let req = PackageReq { name: name.clone(), version_req: deno_semver::VersionReq::parse_from_specifier(req_text).unwrap() };
    let unification_decides = selected.iter().any(|v| req.version_req.matches(v));
    let cached_here = if prefer > 0 && !unification_decides { cached.clone() } else { HashSet::new() };
    let mut want = reference(if sees_fresh { &registry } else { &stale_registry }, &req, &selected, &cached_here, date_applies);
    if stale_mode == 2 && !sees_fresh && matches!(want, Expected::NotFound { .. }) {
      // refreshed for this package, and this requirement retried first
      sees_fresh = true;
      run.count("builds_that_refresh_one_package_without_a_restart", 1);
      want = reference(&registry, &req, &selected, &cached_here, date_applies);
    }
    outcome.push(format!("{want:?}"));
    let key = format!("{}@{}", req.name, req.version_req);
    match want {
      Expected::Version(v, yanked, tier) => {
        // per import: the redirect of *this* specifier (the mapping table is
        // keyed by requirement and holds the latest resolution of equal
        // requirements such as `^1` and `1`; it is compared at the end)
        let in_registry = registry.iter().any(|(rv, s)| rv.to_string() == v && s.present);
        let got = graph.redirects.get(&url(t)).map(|u| u.to_string());
        let want_url = format!("https://jsr.io/@s/a/{v}/mod.ts");
        if in_registry && got.as_deref() != Some(want_url.as_str()) {
          run.violate(
            format!("graph-selects-wrong-version@tier-{tier}"),
            format!("{t}: redirected to {got:?}, the rule (applied in visit order with selections {:?}) gives {v}", selected.iter().map(|v| v.to_string()).collect::<Vec<_>>()),
            desc.clone(),
          );
        }
        let _ = &key;
        exp_map.insert(req.clone(), format!("@s/a@{v}"));
        if tier == "already-selected" && registry.iter().any(|(rv, s)| rv.to_string() == v && s.present && s.yanked) {
          // the statement is silent on whether a re-used selection that is
          // yanked in the registry counts as "used yanked"
          may_be_yanked.insert(format!("@s/a@{v}"));
        }
        let ver = Version::parse_standard(&v).unwrap();
        if !selected.contains(&ver) {
          selected.push(ver.clone());
        }
        if yanked == Some(true) {
          exp_yanked.insert(format!("@s/a@{v}"));
        }
      }
      Expected::NotFound { date_note } => match graph.try_get(&url(t)) {
        Err(e) => {
          let msg = e.to_string();
          if !msg.contains("Could not find version") {
            run.violate("not-found-requirement-wrong-error", format!("{t}: {msg}"), desc.clone());
          } else if msg.contains("newer matching version") != date_note {
            run.violate(
              "not-found-error-date-note-wrong",
              format!("{t}: message {} the date note, a newer match {} excluded by date: {msg}", if msg.contains("newer matching version") { "has" } else { "lacks" }, if date_note { "was" } else { "was not" }),
              desc.clone(),
            );
          }
        }
        other => run.violate("unsatisfiable-requirement-not-an-error", format!("{t}: {:?}", other.map(|m| m.map(|m| m.specifier().to_string())).map_err(|e| e.to_string())), desc.clone()),
      },
    }
  }
  if neighbour > 0 {
    let t = "jsr:@s/n@^1";
    let got = graph.redirects.get(&url(t)).map(|u| u.to_string());
    if got.as_deref() != Some("https://jsr.io/@s/n/1.3.0/mod.ts") {
      run.violate("neighbour-package-selection-wrong", format!("{t}: redirected to {got:?}, its newest matching version is 1.3.0"), desc.clone());
    }
    exp_map.insert(PackageReq::from_str("@s/n@^1").unwrap(), "@s/n@1.3.0".to_string());
  }
  let got_map: std::collections::BTreeMap<PackageReq, String> = graph.packages.mappings().iter().map(|(k, v)| (k.clone(), v.to_string())).collect();
  if got_map != exp_map {
    run.violate("package-mappings-differ-from-selection-rule", format!("mappings {got_map:?}, expected {exp_map:?}"), desc.clone());
  }
  let mut pk = graph.packages.clone();
  let got_yanked: std::collections::BTreeSet<String> = pk.used_yanked_packages().map(|p| p.to_string()).collect();
  if !exp_yanked.is_subset(&got_yanked) || !got_yanked.iter().all(|y| exp_yanked.contains(y) || may_be_yanked.contains(y)) {
    run.violate("used-yanked-packages-differ", format!("reported {got_yanked:?}, expected {exp_yanked:?}"), desc.clone());
  }
  run.state_key = hash_json(&desc);
  run.nontrivial = imports.len() >= 2 || seeded.is_some();
  run.outcome_key = hash_of(&outcome);
  if ch.describe() {
    run.sample = Some(json!({"scenario": desc, "mappings": got_map.iter().map(|(k, v)| format!("{}@{} -> {v}", k.name, k.version_req)).collect::<Vec<_>>()}));
  }
  run
}

/// Pre-release versions of one release, and the iteration order of the
/// registry's version map (a HashMap): the selection must be the semver maximum
/// whatever order the map hands the versions out in.
fn body_prerelease(ch: &Ch) -> Run {
  let mut run = Run::default();
  const VS_PRE: [&str; 4] = ["1.0.0-beta.1", "1.0.0-beta.2", "1.0.0-beta.10", "1.0.0"];
  // versions that differ only in build metadata are equal in precedence
  const VS_BUILD: [&str; 4] = ["1.0.0+a", "1.0.0+b", "1.0.0-rc.1+x", "0.9.0"];
  const RQ: [&str; 5] = ["^1.0.0-beta.1", "1.0.0-beta.2", "*", ">=1.0.0-beta.2 <1.0.0", "^1"];
  let with_build_metadata = ch.flag("versions_with_build_metadata");
  #[allow(non_snake_case)]
  let VS = if with_build_metadata { VS_BUILD } else { VS_PRE };
  let versions: Vec<Version> = VS.iter().map(|v| Version::parse_standard(v).unwrap()).collect();
  let registry: Vec<(Version, VState)> = versions
    .iter()
    .map(|v| {
      let st = ch.shape("version_state", 3);
      (v.clone(), VState { present: st > 0, yanked: st == 2, created: Created::None })
    })
    .collect();
  let present: Vec<&(Version, VState)> = registry.iter().filter(|(_, s)| s.present).collect();
  // the order in which the map iterates
  let perm = ch.permutation("version_map_iteration_order", present.len(), false);
  let wanted: Vec<Version> = perm.iter().map(|i| present[*i].0.clone()).collect();
  let mut map: HashMap<Version, JsrPackageInfoVersion>;
  let mut tries = 0;
  loop {
    map = present.iter().map(|(v, s)| (v.clone(), JsrPackageInfoVersion { created_at: None, yanked: s.yanked })).collect();
    if map.keys().zip(wanted.iter()).all(|(a, b)| a == b) {
      break;
    }
    tries += 1;
    if tries > 1_000_000 {
      panic!("harness: could not realise the requested iteration order");
    }
  }
  let info = JsrPackageInfo { versions: map, latest: None };
  // the same registry with the map iterating in ascending order
  let mut canon_wanted: Vec<Version> = wanted.clone();
  canon_wanted.sort_by(|a, b| a.cmp(b).then(a.to_string().cmp(&b.to_string())));
  let mut canon_map: HashMap<Version, JsrPackageInfoVersion>;
  loop {
    canon_map = present.iter().map(|(v, s)| (v.clone(), JsrPackageInfoVersion { created_at: None, yanked: s.yanked })).collect();
    if canon_map.keys().zip(canon_wanted.iter()).all(|(a, b)| a == b) {
      break;
    }
  }
  let canon_info = JsrPackageInfo { versions: canon_map, latest: None };
  let name = deno_semver::package::PackageName::from_str("@s/a");
  let resolver = JsrVersionResolver::default();
  let pr = resolver.get_for_package(&name, &info);
  let pr_canon = resolver.get_for_package(&name, &canon_info);
  let none: HashSet<Version> = HashSet::new();
  let mut outcome = vec![];
  for r in RQ {
    let req = PackageReq { name: name.clone(), version_req: deno_semver::VersionReq::parse_from_npm(r).unwrap() };
    let want = reference(&registry, &req, &[], &none, false);
    let got = pr.resolve_version(&req, std::iter::empty(), &none);
    run.evals += 1;
    // with build metadata several versions share the maximal precedence: any of them is "the highest"
    let ok = match (&got, &want) {
      (Ok(g), Expected::Version(v, y, _)) => {
        let wv = Version::parse_standard(v).unwrap();
        (g.version.to_string() == *v || (with_build_metadata && g.version.cmp(&wv).is_eq())) && y.is_none_or(|y| y == g.is_yanked || with_build_metadata)
      }
      (Err(_), Expected::NotFound { .. }) => true,
      _ => false,
    };
    outcome.push(format!("{want:?}"));
    // ... but which one must not depend on the order the map hands them out in
    let got_canon = pr_canon.resolve_version(&req, std::iter::empty(), &none);
    let a = got.as_ref().map(|g| g.version.to_string()).map_err(|_| ());
    let b = got_canon.as_ref().map(|g| g.version.to_string()).map_err(|_| ());
    if a != b {
      run.violate(
        "selection-depends-on-version-map-order",
        format!("resolve_version(@s/a@{r}) = {a:?} with the map iterating as {:?}, {b:?} with it iterating in ascending order", wanted.iter().map(|v| v.to_string()).collect::<Vec<_>>()),
        json!({"registry": registry.iter().map(|(v, s)| format!("{v}: {}", if !s.present { "absent" } else if s.yanked { "yanked" } else { "live" })).collect::<Vec<_>>(), "requirement": r}),
      );
    }
    if !ok {
      run.violate(
        "wrong-selection@prerelease-order",
        format!("resolve_version(@s/a@{r}) = {:?}, the rule gives {want:?}", got.as_ref().map(|g| g.version.to_string()).map_err(|_| "not found")),
        json!({"registry": registry.iter().map(|(v, s)| format!("{v}: {}", if !s.present { "absent" } else if s.yanked { "yanked" } else { "live" })).collect::<Vec<_>>(),
          "version_map_iterates_in_this_order": wanted.iter().map(|v| v.to_string()).collect::<Vec<_>>(), "requirement": r}),
      );
    }
  }
  run.state_key = hash_of(&(format!("{registry:?}"), format!("{wanted:?}"), with_build_metadata));
  run.nontrivial = present.len() >= 2;
  run.outcome_key = hash_of(&outcome);
  if ch.describe() {
    run.sample = Some(json!({"registry": registry.iter().map(|(v, s)| format!("{v}: {s:?}")).collect::<Vec<_>>(), "order": wanted.iter().map(|v| v.to_string()).collect::<Vec<_>>()}));
  }
  run
}

pub fn prop(tier: Tier) -> Prop {
  let (n, with_at) = match tier {
    Tier::Quick => (3, true),
    Tier::Thorough => (4, true),
  };
  Prop {
    id: "C06",
    rule: format!("state = one registry (each of {n} versions absent / live / yanked x created_at none / before / exactly at / after the cutoff); per registry every (date+exclusion configuration, requirement, set of already-selected versions incl. one unknown to the registry, set of cached versions) is evaluated against a declarative four-tier reference. Non-trivial = registry with at least 2 versions present."),
    assumptions: vec![
      "function level: JsrVersionResolver::get_for_package(..).resolve_version(..), the single selection routine the builder calls; graph level: registry of one package with 4 versions x 7 states, programs of <= 3 requirements".into(),
      "version domain {1.0.0, 1.1.0, 1.2.0, 2.0.0} (+1.1.5 as an already-selected version the registry lacks); 6 requirements; pre-release versions and tags are outside the alphabet (tags are rejected before this function)".into(),
      "is_yanked is not asserted in the already-selected tier (the statement is silent there)".into(),
    ],
    parts: vec![
      Part {
        name: "select",
        body: Box::new(body(n, with_at)),
        modes: vec![Mode::Full],
        what: "version selection function against the four-tier reference",
      },
      Part {
        name: "prerelease-order",
        body: Box::new(body_prerelease),
        modes: vec![Mode::Full],
        what: "three pre-releases of one release and the release itself (each absent / live / yanked) x 5 requirements x EVERY iteration order of the registry's version map (the harness builds the HashMap until it iterates in the chosen order): the selection is the semver maximum of the tier regardless of the order",
      },
      Part {
        name: "graph",
        body: Box::new(body_graph),
        modes: match tier {
          Tier::Quick => vec![Mode::Deviations(2), Mode::Deviations(3), Mode::Deviations(4)],
          Tier::Thorough => vec![Mode::Deviations(3), Mode::Deviations(4), Mode::Deviations(5)],
        },
        what: "real builds against a scripted registry: up to 3 jsr: requirements resolved in visit order, lockfile-seeded selections, cutoff date / exclusion, prefer_cached_jsr_versions with cached manifest subsets, version tags; mappings, redirects, used yanked packages and not-found errors vs the function-level reference applied in visit order",
      },
    ],
    termination_property: false,
    min_outcomes: 4,
  }
}
