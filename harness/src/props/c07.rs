//! C07 — JSR specifiers map to registry URLs through the manifest, with
//! bookkeeping (mappings, exports used, package dependencies, URL <-> nv).

use crate::engine::*;
use crate::env::*;
use crate::obs::*;
use crate::registry::*;
use crate::report::*;
use deno_graph::GraphKind;
use deno_graph::ModuleGraph;
use deno_graph::source::JsrUrlProvider;
use deno_semver::package::PackageNv;
use serde_json::Value;
use serde_json::json;
use std::collections::BTreeMap;
use std::collections::BTreeSet;

const EXPORT_SHAPES: &[&str] = &["object-full", "string", "object-without-dot", "object-non-string-dot", "object-sub-only-nested"];

fn exports_of(shape: &str) -> Value {
  match shape {
    "object-full" => json!({".": "./mod.ts", "./sub": "./sub.ts"}),
    "string" => json!("./mod.ts"),
    "object-without-dot" => json!({"./sub": "./sub.ts"}),
    "object-non-string-dot" => json!({".": 5, "./sub": "./sub.ts"}),
    "object-sub-only-nested" => json!({".": "./mod.ts", "./sub": "./nested/deep.ts"}),
    _ => unreachable!(),
  }
}

/// imports a package file may contain (text as written)
const FILE_IMPORTS: &[&str] = &[
  "",
  "./util.ts",
  "jsr:@s/b@1",
  "jsr:@s/b@2/sub",
  "npm:x@1",
  "npm:y@2/sub/path",
  "https://jsr.io/@s/b/1.0.0/mod.ts",
  "jsr:@s/a@1",
  "jsr:@s/a@2/sub",
  "jsr:@s/b@1/nope",
  // another spelling of the requirement of "jsr:@s/b@1"
  "jsr:@s/b@^1",
];

const ROOT_IMPORTS: &[&str] = &[
  "jsr:@s/a@1",
  "jsr:@s/a@2",
  "jsr:@s/a@1.0.0",
  "jsr:@s/a@1/sub",
  "jsr:@s/a@2/sub",
  "jsr:@s/a@1/nope",
  "jsr:@s/b@2",
  "jsr:@s/b@1/sub",
  "https://jsr.io/@s/a/1.0.0/mod.ts",
  "https://jsr.io/@s/a/2.0.0/sub.ts",
  // other spellings of "jsr:@s/a@1" and "jsr:@s/a@1/sub": equal requirements,
  // different specifier texts - each text gets its own redirect
  "jsr:@s/a@^1",
  "jsr:/@s/a@1/sub",
  "",
];

struct Fixture {
  /// (package, version) -> (export shape, file path -> import texts)
  versions: BTreeMap<(String, String), (String, BTreeMap<String, Vec<String>>)>,
}

impl Fixture {
  fn files(&self, pkg: &str, ver: &str) -> Vec<(String, String)> {
    let (_, files) = &self.versions[&(pkg.to_string(), ver.to_string())];
    files
      .iter()
      .map(|(p, imports)| {
        let mut s = String::new();
        for (i, t) in imports.iter().enumerate() {
          if !t.is_empty() {
            s.push_str(&format!("import * as i{i} from \"{t}\";\n"));
          }
        }
        s.push_str("export const v = 1;\n");
        (p.clone(), s)
      })
      .collect()
  }
}

fn parse_jsr(text: &str) -> Option<(String, String, String)> {
  // jsr:@s/name@req[/sub]
  let rest = text.strip_prefix("jsr:")?;
  let rest = rest.strip_prefix('/').unwrap_or(rest);
  let mut parts = rest.splitn(3, '/');
  let scope = parts.next()?;
  let name_req = parts.next()?;
  let sub = parts.next().map(|s| format!("./{s}")).unwrap_or(".".into());
  let (name, req) = name_req.split_once('@')?;
  Some((format!("{scope}/{name}"), req.to_string(), sub))
}

fn pick_version(req: &str) -> &'static str {
  // every requirement of the alphabet matches exactly one published version
  if req.trim_start_matches('^').starts_with('1') { "1.0.0" } else { "2.0.0" }
}

fn body(ch: &Ch) -> Run {
  let mut run = Run::default();
  let mut fx = Fixture { versions: BTreeMap::new() };
  for pkg in ["@s/a", "@s/b"] {
    for ver in ["1.0.0", "2.0.0"] {
      let shape = EXPORT_SHAPES[ch.choose("exports_shape", EXPORT_SHAPES.len())];
      let mut files = BTreeMap::new();
      for f in ["/mod.ts", "/sub.ts", "/util.ts", "/nested/deep.ts"] {
        let n = if f == "/mod.ts" { 2 } else { 1 };
        let mut imports = vec![];
        for _ in 0..n {
          imports.push(FILE_IMPORTS[ch.choose("file_import", FILE_IMPORTS.len())].to_string());
        }
        files.insert(f.to_string(), imports);
      }
      fx.versions.insert((pkg.to_string(), ver.to_string()), (shape.to_string(), files));
    }
  }
  let mut root_imports = vec![];
  for k in 0..3 {
    // default: one plain jsr import, then nothing
    let idx = ch.choose("root_import", ROOT_IMPORTS.len());
    let idx = if k > 0 && idx == 0 { ROOT_IMPORTS.len() - 1 } else { idx };
    let t = ROOT_IMPORTS[idx];
    if !t.is_empty() {
      root_imports.push(t.to_string());
    }
  }
  let sched = Sched::new(SchedMode::Immediate);
  let loader = ScriptedLoader::new(sched);
  // history: the program may be built in two steps on one graph (root.ts with
  // the first imports, then root2.ts with the rest), and the lockfile may
  // already hold the selections for the program's own requirements
  let split = if root_imports.len() >= 2 { ch.choose("second_build_starts_at_import", root_imports.len()) } else { 0 };
  // non-default option: jsr: specifiers are left to the embedder (marked external)
  let passthrough = ch.choose("passthrough_jsr_specifiers", 2) == 1;
  let seed_lockfile = !passthrough && ch.choose("lockfile_holds_the_programs_selections", 2) == 1;
  let mut root_src = String::new();
  let mut root2_src = String::new();
  for (i, t) in root_imports.iter().enumerate() {
    let line = format!("import * as r{i} from \"{t}\";\n");
    if split > 0 && i >= split { root2_src.push_str(&line) } else { root_src.push_str(&line) }
  }
  loader.add_text("https://x/root.ts", &root_src);
  loader.add_text("https://x/root2.ts", &root2_src);
  for pkg in ["@s/a", "@s/b"] {
    let p = RegPackage {
      name: pkg.into(),
      versions: ["1.0.0", "2.0.0"]
        .iter()
        .map(|ver| {
          let mut v = RegVersion::new(ver, &[]);
          v.files = fx.files(pkg, ver).into_iter().map(|(p, s)| (p, s.into_bytes())).collect();
          v.exports = exports_of(&fx.versions[&(pkg.to_string(), ver.to_string())].0);
          v
        })
        .collect(),
      raw_meta: None,
    };
    p.install(&loader);
  }
  let npm = ScriptedNpmResolver::default();
  let mut g = ModuleGraph::new(GraphKind::All);
  if seed_lockfile {
    let seeds: Vec<(deno_semver::jsr::JsrDepPackageReq, String)> = root_imports
      .iter()
      .filter_map(|t| parse_jsr(t))
      .map(|(pkg, req, _)| {
        (
          deno_semver::jsr::JsrDepPackageReq::jsr(deno_semver::package::PackageReq::from_str(&format!("{pkg}@{req}")).unwrap()),
          pick_version(&req).to_string(),
        )
      })
      .collect();
    g.fill_from_lockfile(deno_graph::FillFromLockfileOptions {
      redirects: std::iter::empty(),
      package_specifiers: seeds.iter().map(|(a, b)| (a, b.as_str())),
    });
  }
  // non-default option: the two builds share one JsrMetadataStore (registry
  // metadata loaded by the first build is not loaded again by the second)
  let shared_store = split > 0 && ch.choose("the_two_builds_share_a_jsr_metadata_store", 2) == 1;
  let store = std::rc::Rc::new(deno_graph::JsrMetadataStore::default());
  let mut r = build_graph(
    &mut g,
    vec![url("https://x/root.ts")],
    &loader,
    BuildCfg {
      npm: Some(&npm),
      passthrough_jsr: passthrough,
      jsr_metadata_store: shared_store.then(|| store.clone()),
      ..Default::default()
    },
    ch,
  );
  if split > 0 && r.is_ok() {
    r = build_graph(
      &mut g,
      vec![url("https://x/root2.ts")],
      &loader,
      BuildCfg {
        npm: Some(&npm),
        passthrough_jsr: passthrough,
        jsr_metadata_store: shared_store.then(|| store.clone()),
        ..Default::default()
      },
      ch,
    );
  }
  if shared_store {
    // shared metadata is loaded once
    let log = loader.log.borrow();
    let mut seen = BTreeSet::new();
    for c in log.iter().filter(|c| c.specifier.as_str().ends_with("meta.json") && c.cache_setting != deno_graph::source::CacheSetting::Only) {
      if !seen.insert(c.specifier.to_string()) {
        run.violate("shared-metadata-store-loads-metadata-twice", format!("{} was loaded again although both builds share one JsrMetadataStore", c.specifier), json!({"root": root_src, "root2": root2_src}));
      }
    }
  }
  run.evals = 1;
  let describe = json!({
    "root": root_src,
    "root2_built_afterwards_on_the_same_graph": if split > 0 { Some(&root2_src) } else { None },
    "lockfile_holds_the_programs_selections": seed_lockfile,
    "passthrough_jsr_specifiers": passthrough,
    "the_two_builds_share_a_jsr_metadata_store": shared_store,
    "packages": fx.versions.iter().map(|((p, v), (shape, files))| json!({"nv": format!("{p}@{v}"), "exports": exports_of(shape), "files": files})).collect::<Vec<_>>(),
  });
  let case = |extra: Value| json!({"registry": describe, "detail": extra});
  if r.is_err() {
    run.violate("build-did-not-finish", "deadlock", case(json!({})));
    return run;
  }
  // ---------------- reference bookkeeping
  let mut exp_redirects: BTreeMap<String, String> = BTreeMap::new();
  let mut exp_mappings: BTreeSet<String> = BTreeSet::new();
  let mut exp_exports: BTreeMap<String, BTreeMap<String, String>> = BTreeMap::new();
  let mut exp_deps: BTreeSet<String> = BTreeSet::new();
  let mut exp_pkgs: BTreeSet<String> = BTreeSet::new();
  let mut exp_unknown: BTreeMap<String, Vec<String>> = BTreeMap::new();
  let mut exp_external: BTreeSet<String> = BTreeSet::new();
  let mut seen: BTreeSet<String> = BTreeSet::new();
  // worklist of (url of loaded module, its import texts)
  let mut work: Vec<(String, Vec<String>)> = vec![("https://x/root.ts".into(), root_imports.clone())];
  let in_pkg = |u: &str| -> Option<(String, String, String)> {
    let rest = u.strip_prefix("https://jsr.io/")?;
    let mut p = rest.splitn(4, '/');
    let scope = p.next()?;
    let name = p.next()?;
    let ver = p.next()?;
    let path = p.next()?;
    Some((format!("{scope}/{name}"), ver.to_string(), format!("/{path}")))
  };
  while let Some((module_url, imports)) = work.pop() {
    if !seen.insert(module_url.clone()) {
      continue;
    }
    let owner = in_pkg(&module_url).map(|(p, v, _)| format!("{p}@{v}"));
    if let Some(o) = &owner {
      exp_pkgs.insert(o.clone());
    }
    for t in imports.iter().filter(|t| !t.is_empty()) {
      if let Some((pkg, req, export)) = parse_jsr(t) {
        if let Some(o) = &owner {
          exp_deps.insert(format!("{o} -> jsr:{pkg}@{req}"));
        }
        if passthrough {
          // nothing is resolved or loaded; the dependency edge is all there is
          exp_external.insert(t.clone());
          continue;
        }
        let ver = pick_version(&req);
        let nv = format!("{pkg}@{ver}");
        exp_mappings.insert(format!("{pkg}@{req} -> {nv}"));
        exp_pkgs.insert(nv.clone());
        let (shape, files) = &fx.versions[&(pkg.clone(), ver.to_string())];
        let ex = exports_of(shape);
        let value = match &ex {
          Value::String(s) if export == "." => Some(s.clone()),
          Value::Object(m) => m.get(&export).and_then(|v| v.as_str()).map(|s| s.to_string()),
          _ => None,
        };
        match value {
          Some(v) => {
            let target = format!("https://jsr.io/{pkg}/{ver}/{}", v.trim_start_matches("./"));
            exp_redirects.insert(t.clone(), target.clone());
            exp_exports.entry(nv.clone()).or_default().insert(export.clone(), v.clone());
            let path = format!("/{}", v.trim_start_matches("./"));
            if let Some(imps) = files.get(&path) {
              work.push((target, imps.clone()));
            }
          }
          None => {
            let keys: Vec<String> = match &ex {
              Value::String(_) => vec![".".into()],
              Value::Object(m) => m.iter().filter(|(_, v)| v.is_string()).map(|(k, _)| k.clone()).collect(),
              _ => vec![],
            };
            exp_unknown.insert(t.clone(), keys);
          }
        }
      } else if let Some(req) = t.strip_prefix("npm:") {
        if let Some(o) = &owner {
          // the requirement without sub path
          let mut it = req.splitn(2, '/');
          let name_req = it.next().unwrap();
          exp_deps.insert(format!("{o} -> npm:{name_req}"));
        }
      } else if let Some((pkg, ver, path)) = in_pkg(t) {
        if let Some((_, files)) = fx.versions.get(&(pkg.clone(), ver.clone())) {
          exp_pkgs.insert(format!("{pkg}@{ver}"));
          if let Some(imps) = files.get(&path) {
            work.push((t.clone(), imps.clone()));
          }
        }
      } else if t.starts_with("./") {
        let base = url(&module_url);
        let target = base.join(t).unwrap().to_string();
        if let Some((pkg, ver, path)) = in_pkg(&target)
          && let Some((_, files)) = fx.versions.get(&(pkg, ver))
          && let Some(imps) = files.get(&path)
        {
          work.push((target, imps.clone()));
        }
      }
    }
  }
  // ---------------- compare
  for t in &exp_external {
    let ok = matches!(g.try_get(&url(t)), Ok(Some(m)) if m.external().is_some());
    if !ok {
      run.violate("passthrough-jsr-specifier-not-external", format!("{t} should be an external entry with passthrough_jsr_specifiers"), case(json!({})));
    }
  }
  let got_redirects: BTreeMap<String, String> = g
    .redirects
    .iter()
    .filter(|(k, _)| k.scheme() == "jsr")
    .map(|(k, v)| (k.to_string(), v.to_string()))
    .collect();
  if got_redirects != exp_redirects {
    run.violate(
      "jsr-redirects-differ",
      format!("graph.redirects for jsr: specifiers {got_redirects:?}, expected {exp_redirects:?}"),
      case(json!({})),
    );
  }
  // `^1` and `1` are the same requirement: one mapping / one dependency edge,
  // under whichever spelling came first
  let norm = |s: String| s.replace("@^1", "@1");
  let exp_mappings: BTreeSet<String> = exp_mappings.into_iter().map(norm).collect();
  let exp_deps: BTreeSet<String> = exp_deps.into_iter().map(norm).collect();
  let got_mappings: BTreeSet<String> = g.packages.mappings().iter().map(|(k, v)| norm(format!("{k} -> {v}"))).collect();
  if got_mappings != exp_mappings {
    run.violate("package-mappings-differ", format!("mappings {got_mappings:?}, expected {exp_mappings:?}"), case(json!({})));
  }
  let mut got_deps: BTreeSet<String> = BTreeSet::new();
  let mut got_pkgs: BTreeSet<String> = BTreeSet::new();
  for (nv, deps) in g.packages.packages_with_deps() {
    got_pkgs.insert(nv.to_string());
    for d in deps {
      got_deps.insert(norm(format!("{nv} -> {d}")));
    }
  }
  if got_deps != exp_deps {
    let missing: Vec<_> = exp_deps.difference(&got_deps).collect();
    let extra: Vec<_> = got_deps.difference(&exp_deps).collect();
    run.violate(
      format!("package-dependencies-differ:{}", if extra.is_empty() { "omitted" } else if missing.is_empty() { "extra" } else { "both" }),
      format!("packages_with_deps omits {missing:?}, has extra {extra:?}"),
      case(json!({})),
    );
  }
  for nv in &exp_pkgs {
    if !got_pkgs.contains(nv) {
      run.violate("package-not-registered", format!("{nv} is used by the graph but packages_with_deps() does not list it"), case(json!({})));
    }
  }
  for nv in &got_pkgs {
    let pnv = PackageNv::from_str(nv).unwrap();
    let got: BTreeMap<String, String> = g.packages.package_exports(&pnv).cloned().unwrap_or_default();
    let want = exp_exports.get(nv).cloned().unwrap_or_default();
    if got != want {
      run.violate("package-exports-differ", format!("package_exports({nv}) = {got:?}, exports used are {want:?}"), case(json!({})));
    }
  }
  for (spec, keys) in &exp_unknown {
    match g.try_get(&url(spec)) {
      Err(e) => {
        let msg = e.to_string();
        if !msg.contains("Unknown export") {
          run.violate("unknown-export-wrong-error", format!("{spec}: {msg}"), case(json!({})));
        } else {
          // the listing: one " * <export>" line per manifest export
          let mut listed: Vec<String> = msg.lines().filter_map(|l| l.strip_prefix(" * ")).map(|s| s.to_string()).collect();
          listed.sort();
          let mut want = keys.clone();
          want.sort();
          if listed != want {
            run.violate("unknown-export-error-does-not-list-exports", format!("{spec}: error lists {listed:?}, the manifest's exports are {want:?}"), case(json!({})));
          }
        }
      }
      other => run.violate(
        "unknown-export-not-an-error",
        format!("{spec} names an export the manifest lacks; entry is {:?}", other.map(|m| m.map(|m| m.specifier().to_string())).map_err(|e| e.to_string())),
        case(json!({})),
      ),
    }
  }
  // URL <-> name@version
  let provider = deno_graph::source::DefaultJsrUrlProvider;
  for ((pkg, ver), (_, files)) in &fx.versions {
    let nv = PackageNv::from_str(&format!("{pkg}@{ver}")).unwrap();
    let base = provider.package_url(&nv);
    for path in files.keys() {
      let u = base.join(path.trim_start_matches('/')).unwrap();
      let back = provider.package_url_to_nv(&u);
      run.evals += 1;
      if back.as_ref() != Some(&nv) {
        run.violate("package-url-round-trip-fails", format!("package_url_to_nv({u}) = {back:?}, expected {nv}"), case(json!({})));
      }
    }
  }
  for near in [
    "https://jsr.io/@s/ab/1.0.0/mod.ts",
    "https://jsr.io/@s/a/1.0.0",
    "https://jsr.io/@s/a/not-a-version/mod.ts",
    "https://jsr.io/@s/a/meta.json",
    "https://jsr.io/@s/a/1.0.0_meta.json",
    "https://jsr.io.evil.com/@s/a/1.0.0/mod.ts",
    "https://x/@s/a/1.0.0/mod.ts",
    "http://jsr.io/@s/a/1.0.0/mod.ts",
  ] {
    let back = provider.package_url_to_nv(&url(near));
    run.evals += 1;
    let wrong = match (&back, near) {
      (Some(nv), "https://jsr.io/@s/ab/1.0.0/mod.ts") => nv.to_string() != "@s/ab@1.0.0",
      (Some(nv), "https://jsr.io/@s/a/1.0.0") => nv.to_string() != "@s/a@1.0.0",
      (Some(_), _) => true,
      (None, _) => false,
    };
    if wrong {
      run.violate("url-attributed-to-a-package-it-does-not-belong-to", format!("package_url_to_nv({near}) = {back:?}"), case(json!({})));
    }
  }
  run.state_key = hash_json(&describe);
  run.nontrivial = !exp_deps.is_empty() || exp_redirects.len() >= 2 || !exp_unknown.is_empty();
  run.outcome_key = hash_of(&format!("{exp_redirects:?}{exp_deps:?}{exp_unknown:?}"));
  if ch.describe() {
    run.sample = Some(case(json!({"expected_redirects": exp_redirects, "expected_package_deps": exp_deps})));
  }
  run
}

/// Which URLs belong to which registry package: every URL assembled from small
/// component alphabets (look-alike authorities, short / odd paths) against a
/// reference that compares origin and path segments.
fn body_urls(ch: &Ch) -> Run {
  use deno_graph::source::JsrUrlProvider;
  let mut run = Run::default();
  const SCHEMES: &[&str] = &["https", "http"];
  const AUTHORITIES: &[&str] = &["jsr.io", "jsr.io.evil.com", "jsr.io:8443", "jsr.io:443", "x.jsr.io", "jsr.iox", "jsr.io@evil.com", "JSR.IO", "jsr.io."];
  const SEGS: &[&str] = &["@s", "a", "ab", "1.0.0", "1.0.0-beta.1", "v1", "mod.ts", "", "%40s"];
  let scheme = SCHEMES[ch.shape("scheme", SCHEMES.len())];
  let authority = AUTHORITIES[ch.shape("authority", AUTHORITIES.len())];
  let n = ch.shape("path_segments", 5);
  let mut segs = vec![];
  for _ in 0..n {
    segs.push(SEGS[ch.shape("segment", SEGS.len())]);
  }
  let text = format!("{scheme}://{authority}/{}", segs.join("/"));
  let Ok(u) = deno_graph::ModuleSpecifier::parse(&text) else {
    run.state_key = hash_of(&text);
    return run;
  };
  run.evals = 1;
  let provider = deno_graph::source::DefaultJsrUrlProvider;
  let got = provider.package_url_to_nv(&u).map(|nv| nv.to_string());
  // reference: same origin as the registry (scheme https, host jsr.io, default
  // port, no credentials), and the first three path segments are scope, name
  // and a semver version
  let same_origin = u.scheme() == "https" && u.host_str() == Some("jsr.io") && u.port().is_none() && u.username().is_empty() && u.password().is_none();
  // (the path begins after the registry URL's own slash; one further empty
  // segment is tolerated, as the conversion documents)
  let after_base = &u.path()[1..];
  let path_segs: Vec<&str> = after_base.strip_prefix('/').unwrap_or(after_base).split('/').collect();
  let want = if same_origin && path_segs.len() >= 3 && deno_semver::Version::parse_standard(path_segs[2]).is_ok() {
    Some(format!("{}/{}@{}", path_segs[0], path_segs[1], deno_semver::Version::parse_standard(path_segs[2]).unwrap()))
  } else {
    None
  };
  if got != want {
    run.violate(
      if want.is_none() { "url-attributed-to-a-package-it-does-not-belong-to" } else { "registry-url-not-attributed-to-its-package" },
      format!("package_url_to_nv({u}) = {got:?}, expected {want:?}"),
      json!({"url": u.as_str(), "written_as": text}),
    );
  }
  // round trip for well-formed names: name@version -> package URL -> name@version
  if let Some(nv) = provider.package_url_to_nv(&u)
    && nv.name.starts_with('@')
    && nv.name.split('/').count() == 2
    && !nv.name.ends_with('/')
  {
    let base = provider.package_url(&nv);
    let back = provider.package_url_to_nv(&base);
    if back.as_ref() != Some(&nv) {
      run.violate("package-url-round-trip-fails", format!("{nv} -> {base} -> {back:?}"), json!({"url": u.as_str()}));
    }
  }
  run.state_key = hash_of(&u.as_str());
  run.nontrivial = want.is_some() || authority != "jsr.io";
  run.outcome_key = hash_of(&want);
  if ch.describe() {
    run.sample = Some(json!({"url": u.as_str(), "expected": want}));
  }
  run
}

pub fn prop(tier: Tier) -> Prop {
  let modes = match tier {
    Tier::Quick => vec![Mode::Deviations(1), Mode::Deviations(2), Mode::Deviations(3)],
    Tier::Thorough => vec![Mode::Deviations(2), Mode::Deviations(3), Mode::Deviations(4)],
  };
  Prop {
    id: "C07",
    rule: "state = registry (2 packages x 2 versions; per version an exports shape from {object with . and ./sub, string, object without ., object with non-string ., object whose ./sub points into a nested directory} and import lists for 4 files from {relative, jsr: with and without sub path incl. an unknown export, npm: with and without sub path, https URL into the registry, self import}) + an importing program of <= 3 imports (jsr: forms with versions / sub paths / unknown export, https URLs into the registry). A reference recomputes redirects, mappings, exports used, package dependency edges and unknown-export errors from the fixture; package URL <-> name@version is round-tripped for every file and probed with 8 near-miss URLs. Non-trivial = fixture with a package dependency edge, >= 2 jsr redirects or an unknown export.".into(),
    assumptions: vec![
      "every requirement of the alphabet matches exactly one published version, so version selection order (C06) does not matter here".into(),
      "deviation-bounded from the all-default registry (full exports, no imports)".into(),
    ],
    parts: vec![Part {
      name: "registries",
      body: Box::new(body),
      modes,
      what: "registries x importing programs against reference bookkeeping",
    },
    Part {
      name: "url-mapping",
      body: Box::new(body_urls),
      modes: vec![Mode::Full],
      what: "every URL from 2 schemes x 9 look-alike authorities x paths of <= 4 segments over 9 segment texts: package_url_to_nv against an origin + segment reference, and the round trip through package_url",
    }],
    termination_property: false,
    min_outcomes: 8,
  }
}
