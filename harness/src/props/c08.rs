//! C08 — module analysis finds every dependency once, with exact specifier
//! ranges; position lookup returns the dependency whose range contains it.

use crate::engine::*;
use crate::env::*;
use crate::obs::*;
use crate::report::*;
use deno_graph::MediaType;
use deno_graph::Position;
use deno_graph::PositionRange;
use deno_graph::analysis::*;
use serde_json::Value;
use serde_json::json;

#[derive(Clone, Debug, PartialEq, Eq, PartialOrd, Ord)]
struct Item {
  cat: String,
  value: String,
  attr: Option<String>,
  /// byte range of the specifier (with its quotes when it has them)
  lo: usize,
  hi: usize,
}

#[derive(Clone, Copy, PartialEq, Debug)]
enum Place {
  /// must precede the first token of the module (leading comments)
  Leading,
  Body,
  /// must be the very last thing in the file
  Trailing,
}

struct Form {
  name: &'static str,
  place: Place,
  /// media types (by extension) in which the form is meaningful
  media: &'static [&'static str],
  /// string-literal form (escapes are processed) vs comment form
  literal: bool,
  /// builds (text, items relative to text) from a rendered specifier literal
  build: fn(lit: &str, value: &str, n: usize) -> (String, Vec<(String, Option<String>, bool)>),
}

const TS: &[&str] = &["ts", "tsx", "d.ts", "mts", "d.mts"];
const TSX: &[&str] = &["ts", "tsx", "mts"];
const JS: &[&str] = &["js", "jsx", "mjs"];
const CODE: &[&str] = &["ts", "tsx", "js", "jsx", "mjs", "mts"];
const ALL: &[&str] = &["ts", "tsx", "js", "jsx", "mjs", "d.ts", "mts", "d.mts"];
const JSX: &[&str] = &["tsx", "jsx"];

// Every builder returns the statement text in which the literal appears
// exactly once as `lit` for each item (cat, attr, is_types_pragma).
fn forms() -> Vec<Form> {
  vec![
    Form { name: "import-default", place: Place::Body, media: ALL, literal: true, build: |l, _, n| (format!("import a{n} from {l};\n"), vec![("static:import".into(), None, false)]) },
    Form { name: "import-side-effect", place: Place::Body, media: ALL, literal: true, build: |l, _, _| (format!("import {l};\n"), vec![("static:import".into(), None, false)]) },
    Form { name: "export-star", place: Place::Body, media: ALL, literal: true, build: |l, _, _| (format!("export * from {l};\n"), vec![("static:export".into(), None, false)]) },
    Form { name: "export-named", place: Place::Body, media: ALL, literal: true, build: |l, _, n| (format!("export {{ x{n} }} from {l};\n"), vec![("static:export".into(), None, false)]) },
    Form { name: "import-type", place: Place::Body, media: TS, literal: true, build: |l, _, n| (format!("import type {{ T{n} }} from {l};\n"), vec![("static:importType".into(), None, false)]) },
    Form { name: "export-type", place: Place::Body, media: TS, literal: true, build: |l, _, n| (format!("export type {{ U{n} }} from {l};\n"), vec![("static:exportType".into(), None, false)]) },
    Form { name: "import-with-attribute", place: Place::Body, media: CODE, literal: true, build: |l, _, n| (format!("import j{n} from {l} with {{ type: \"json\" }};\n"), vec![("static:import".into(), Some("json".into()), false)]) },
    Form { name: "import-defer", place: Place::Body, media: CODE, literal: true, build: |l, _, n| (format!("import defer * as d{n} from {l};\n"), vec![("static:importDefer".into(), None, false)]) },
    Form { name: "import-source", place: Place::Body, media: CODE, literal: true, build: |l, _, n| (format!("import source s{n} from {l};\n"), vec![("static:importSource".into(), None, false)]) },
    Form { name: "dynamic-import", place: Place::Body, media: CODE, literal: true, build: |l, _, n| (format!("const di{n} = await import({l});\n"), vec![("dynamic:import".into(), None, false)]) },
    Form { name: "dynamic-import-with-attribute", place: Place::Body, media: CODE, literal: true, build: |l, _, n| (format!("const dj{n} = await import({l}, {{ with: {{ type: \"json\" }} }});\n"), vec![("dynamic:import".into(), Some("json".into()), false)]) },
    // template-literal arguments: reported with their string / expression parts and the range of the whole literal
    Form { name: "dynamic-import-template", place: Place::Body, media: CODE, literal: true, build: |_, _, n| (format!("const tv{n} = \"a\";\nconst dt{n} = await import(`./tdir/${{tv{n}}}/x.ts`);\n"), vec![("dynamic:import:tpl".into(), None, false)]) },
    Form { name: "dynamic-import-template-non-ascii", place: Place::Body, media: CODE, literal: true, build: |_, _, n| (format!("const tw{n} = \"a\";\nconst du{n} = await import(`./t\u{e9}\u{1F600}/${{tw{n}}}`, {{ with: {{ type: \"json\" }} }});\n"), vec![("dynamic:import:tpl".into(), Some("json".into()), false)]) },
    Form { name: "dynamic-import-template-expr-only", place: Place::Body, media: CODE, literal: true, build: |_, _, n| (format!("const tx{n} = \"./a.ts\";\nconst dv{n} = await import(`${{tx{n}}}`);\n"), vec![("dynamic:import:tpl".into(), None, false)]) },
    Form { name: "nested-dynamic-import", place: Place::Body, media: CODE, literal: true, build: |l, _, n| (format!("function f{n}() {{ return import({l}); }}\n"), vec![("dynamic:import".into(), None, false)]) },
    Form { name: "import-type-in-namespace", place: Place::Body, media: TSX, literal: true, build: |l, _, n| (format!("namespace NS{n} {{ export type I = import({l}).X; }}\n"), vec![("static:importType".into(), None, false)]) },
    Form { name: "dynamic-import-in-namespace", place: Place::Body, media: TSX, literal: true, build: |l, _, n| (format!("namespace ND{n} {{ export const d = import({l}); }}\n"), vec![("dynamic:import".into(), None, false)]) },
    Form { name: "import-type-in-declare-global", place: Place::Body, media: TSX, literal: true, build: |l, _, n| (format!("export {{}};\ndeclare global {{ type G{n} = import({l}).X; }}\n"), vec![("static:importType".into(), None, false)]) },
    Form { name: "import-equals-in-namespace", place: Place::Body, media: TSX, literal: true, build: |l, _, n| (format!("namespace NQ{n} {{ import q = require({l}); export const v = q; }}\n"), vec![("static:importEquals".into(), None, false)]) },
    Form { name: "dynamic-import-in-class-method", place: Place::Body, media: CODE, literal: true, build: |l, _, n| (format!("class K{n} {{ m() {{ return import({l}); }} }}\n"), vec![("dynamic:import".into(), None, false)]) },
    Form { name: "dynamic-import-in-static-block", place: Place::Body, media: CODE, literal: true, build: |l, _, n| (format!("class S{n} {{ static {{ import({l}); }} }}\n"), vec![("dynamic:import".into(), None, false)]) },
    Form { name: "import-type-expression", place: Place::Body, media: TS, literal: true, build: |l, _, n| (format!("export type I{n} = import({l}).X;\n"), vec![("static:importType".into(), None, false)]) },
    Form { name: "import-equals", place: Place::Body, media: TSX, literal: true, build: |l, _, n| (format!("import q{n} = require({l});\n"), vec![("static:importEquals".into(), None, false)]) },
    Form { name: "declare-module", place: Place::Body, media: TS, literal: true, build: |l, _, n| (format!("declare module {l} {{ export const g{n}: number; }}\n"), vec![("static:maybeTsModuleAugmentation".into(), None, false)]) },
    Form { name: "ts-types-pragma", place: Place::Body, media: CODE, literal: false, build: |l, _, n| (format!("// @ts-types={l}\nimport p{n} from \"./pragma_target.js\";\n"), vec![("types-pragma".into(), None, true)]) },
    Form { name: "deno-types-pragma", place: Place::Body, media: CODE, literal: false, build: |l, _, n| (format!("// @deno-types={l}\nimport p{n} from \"./pragma_target.js\";\n"), vec![("types-pragma".into(), None, true)]) },
    Form { name: "ts-types-block-pragma", place: Place::Body, media: CODE, literal: false, build: |l, _, n| (format!("/* @ts-types={l} */\nimport p{n} from \"./pragma_target.js\";\n"), vec![("types-pragma".into(), None, true)]) },
    Form { name: "reference-path", place: Place::Leading, media: ALL, literal: false, build: |l, _, _| (format!("/// <reference path={l} />\n"), vec![("ts-reference-path".into(), None, false)]) },
    Form { name: "reference-types", place: Place::Leading, media: ALL, literal: false, build: |l, _, _| (format!("/// <reference types={l} />\n"), vec![("ts-reference-types".into(), None, false)]) },
    Form { name: "self-types", place: Place::Leading, media: JS, literal: false, build: |l, _, _| (format!("// @ts-self-types={l}\n"), vec![("self-types".into(), None, false)]) },
    Form { name: "jsx-import-source", place: Place::Leading, media: JSX, literal: false, build: |_, v, _| (format!("/** @jsxImportSource {v} */\n"), vec![("jsx-import-source:bare".into(), None, false)]) },
    Form { name: "jsx-import-source-types", place: Place::Leading, media: JSX, literal: false, build: |_, v, _| (format!("/** @jsxImportSourceTypes {v} */\n"), vec![("jsx-import-source-types:bare".into(), None, false)]) },
    Form { name: "jsdoc-type-import", place: Place::Body, media: JS, literal: false, build: |l, _, n| (format!("/** @type {{import({l}).T}} */\nconst jd{n} = null;\n"), vec![("jsdoc".into(), None, false)]) },
    Form { name: "jsdoc-import-tag", place: Place::Body, media: JS, literal: false, build: |l, _, n| (format!("/** @import {{ T{n} }} from {l} */\nconst ji{n} = null;\n"), vec![("jsdoc".into(), None, false)]) },
    Form { name: "source-mapping-url", place: Place::Trailing, media: CODE, literal: false, build: |_, v, _| (format!("//# sourceMappingURL={v}"), vec![("source-map-url:bare".into(), None, false)]) },
    // statements that declare no dependency
    Form { name: "plain-const", place: Place::Body, media: CODE, literal: true, build: |_, _, n| (format!("export const c{n} = 1;\n"), vec![]) },
    Form { name: "plain-declare", place: Place::Body, media: &["d.ts", "d.mts"], literal: true, build: |_, _, n| (format!("export declare const c{n}: number;\n"), vec![]) },
    Form { name: "commented-import", place: Place::Body, media: ALL, literal: true, build: |l, _, _| (format!("// import x from {l};\n"), vec![]) },
    Form { name: "import-in-string", place: Place::Body, media: CODE, literal: true, build: |_, _, n| (format!("const s{n} = \"import('./nope.ts')\";\n"), vec![]) },
  ]
}

/// (source spelling inside the quotes, unescaped value, needs string-literal semantics)
const SPELLINGS: &[(&str, &str, bool)] = &[
  ("./a.ts", "./a.ts", false),
  ("./\u{e9}.ts", "./\u{e9}.ts", false),
  ("./\u{1F600}.ts", "./\u{1F600}.ts", false),
  ("./\\x41b.ts", "./Ab.ts", true),
  ("./\\u{1F600}.ts", "./\u{1F600}.ts", true),
  ("./it\\'s.ts", "./it's.ts", true),
];

const TRIVIA: &[&str] = &["", "/* \u{e9} */ ", "/* \u{1F600} */ ", "// c\u{e9}\n", "\t", "  "];

/// (line, character) -> byte offset, characters = Unicode scalar values,
/// lines split at '\n' only. Independent of deno_ast's SourceTextInfo.
fn offset_of(text: &str, p: Position) -> Option<usize> {
  let mut line_start = 0usize;
  for _ in 0..p.line {
    let nl = text[line_start..].find('\n')?;
    line_start += nl + 1;
  }
  let rest = &text[line_start..];
  let line_end = rest.find('\n').map(|i| i + 1).unwrap_or(rest.len());
  let line = &rest[..line_end];
  let mut off = 0;
  for (n, (bi, _)) in line.char_indices().enumerate() {
    if n == p.character {
      return Some(line_start + bi);
    }
    off = n + 1;
  }
  if p.character == off {
    return Some(line_start + line.len());
  }
  None
}

fn attr_of(a: &ImportAttributes) -> Option<String> {
  a.get("type").map(|s| s.to_string())
}

struct Reported {
  cat: String,
  value: String,
  attr: Option<String>,
  range: PositionRange,
}

fn collect(info: &ModuleInfo) -> Vec<Reported> {
  let mut out = vec![];
  for d in &info.dependencies {
    match d {
      DependencyDescriptor::Static(s) => {
        let kind = serde_json::to_value(s.kind).unwrap().as_str().unwrap().to_string();
        out.push(Reported { cat: format!("static:{kind}"), value: s.specifier.clone(), attr: attr_of(&s.import_attributes), range: s.specifier_range });
        if let Some(t) = &s.types_specifier {
          out.push(Reported { cat: "types-pragma".into(), value: t.text.clone(), attr: None, range: t.range });
        }
      }
      DependencyDescriptor::Dynamic(dy) => {
        let kind = serde_json::to_value(dy.kind).unwrap().as_str().unwrap().to_string();
        let value = match &dy.argument {
          DynamicArgument::String(s) => s.clone(),
          DynamicArgument::Template(parts) => parts
            .iter()
            .map(|p| match p {
              deno_graph::analysis::DynamicTemplatePart::String { value } => format!("S({value})"),
              deno_graph::analysis::DynamicTemplatePart::Expr => "E".to_string(),
            })
            .collect::<String>()
            .replace("S()", ""),
          DynamicArgument::Expr => "<expr>".into(),
        };
        out.push(Reported { cat: format!("dynamic:{kind}"), value, attr: attr_of(&dy.import_attributes), range: dy.argument_range });
        if let Some(t) = &dy.types_specifier {
          out.push(Reported { cat: "types-pragma".into(), value: t.text.clone(), attr: None, range: t.range });
        }
      }
    }
  }
  for r in &info.ts_references {
    match r {
      TypeScriptReference::Path(s) => out.push(Reported { cat: "ts-reference-path".into(), value: s.text.clone(), attr: None, range: s.range }),
      TypeScriptReference::Types { specifier, .. } => out.push(Reported { cat: "ts-reference-types".into(), value: specifier.text.clone(), attr: None, range: specifier.range }),
    }
  }
  if let Some(s) = &info.self_types_specifier {
    out.push(Reported { cat: "self-types".into(), value: s.text.clone(), attr: None, range: s.range });
  }
  if let Some(s) = &info.jsx_import_source {
    out.push(Reported { cat: "jsx-import-source:bare".into(), value: s.text.clone(), attr: None, range: s.range });
  }
  if let Some(s) = &info.jsx_import_source_types {
    out.push(Reported { cat: "jsx-import-source-types:bare".into(), value: s.text.clone(), attr: None, range: s.range });
  }
  for j in &info.jsdoc_imports {
    out.push(Reported { cat: "jsdoc".into(), value: j.specifier.text.clone(), attr: None, range: j.specifier.range });
  }
  if let Some(s) = &info.source_map_url {
    out.push(Reported { cat: "source-map-url:bare".into(), value: s.text.clone(), attr: None, range: s.range });
  }
  out
}

const MEDIA: &[&str] = &["ts", "js", "tsx", "jsx", "d.ts", "mjs", "mts", "d.mts"];

pub struct GenProgram {
  pub ext: &'static str,
  pub text: String,
  pub full: String,
  pub crlf: bool,
  pub bom: bool,
  pub shebang: bool,
  pub names: Vec<&'static str>,
  expected: Vec<Item>,
}

pub fn gen_program(ch: &Ch, max_items: usize) -> GenProgram {
  {
    let all = forms();
    let ext = MEDIA[ch.shape("media", MEDIA.len())];
    let avail: Vec<&Form> = all.iter().filter(|f| f.media.contains(&ext)).collect();
    let n = ch.shape("n_items", max_items + 1);
    let crlf = ch.choose("crlf", 2) == 1;
    let bom = ch.choose("bom", 2) == 1;
    let shebang = ch.choose("shebang", 2) == 1;
    // choose items
    struct Chosen<'a> {
      form: &'a Form,
      lit: String,
      value: String,
      trivia: &'static str,
      /// white space put around the literal where the syntax allows it: `import( "x" )`, `from   "x"`
      pad: &'static str,
    }
    let mut chosen: Vec<Chosen> = vec![];
    for _ in 0..n {
      let f = avail[ch.shape("form", avail.len())];
      let spellings: Vec<&(&str, &str, bool)> = SPELLINGS.iter().filter(|s| f.literal || !s.2).collect();
      let sp = spellings[ch.choose("spelling", spellings.len())];
      let single = ch.choose("single_quote", 2) == 1 || sp.0.contains("\\'");
      // comment forms keep double quotes unless chosen otherwise; `\'` needs single quotes
      let q = if single { '\'' } else { '"' };
      let lit = format!("{q}{}{q}", sp.0);
      let trivia = TRIVIA[ch.choose("trivia", TRIVIA.len())];
      // choice 0 = the usual tight spelling
      let pad = ["", " ", "  ", "\t", "\n  ", " /* c */ "][ch.choose("padding_around_literal", 6)];
      chosen.push(Chosen { form: f, lit, value: sp.1.to_string(), trivia, pad });
    }
    // leading items first, trailing item last (at most one)
    let mut ordered: Vec<&Chosen> = chosen.iter().filter(|c| c.form.place == Place::Leading).collect();
    ordered.extend(chosen.iter().filter(|c| c.form.place == Place::Body));
    if let Some(t) = chosen.iter().find(|c| c.form.place == Place::Trailing) {
      ordered.push(t);
    }
    let mut text = String::new();
    if shebang {
      text.push_str("#!/usr/bin/env -S deno run\n");
    }
    let mut expected: Vec<Item> = vec![];
    let mut seen_self_types = false;
    let mut seen_jsx = false;
    let mut seen_jsx_types = false;
    for (k, c) in ordered.iter().enumerate() {
      // leading comments must not be preceded by code; trivia that is itself
      // a comment is fine
      if !(c.form.place == Place::Trailing) {
        text.push_str(c.trivia);
      }
      let (t, items) = (c.form.build)(&c.lit, &c.value, k);
      // optional white space inside the parentheses of import(...) forms (code,
      // type positions and JSDoc alike) and after `from`
      // (a block comment cannot sit inside a JSDoc comment)
      let t = if c.pad.is_empty() || (c.pad.contains("/*") && t.contains("/**")) {
        t
      } else {
        t.replace(&format!("({})", c.lit), &format!("({}{}{})", c.pad, c.lit, c.pad))
          .replace(&format!("({},", c.lit), &format!("({}{}{},", c.pad, c.lit, c.pad))
          .replace(&format!("from {}", c.lit), &format!("from {}{}", c.pad, c.lit))
      };
      let base = text.len();
      for (cat, attr, _is_pragma) in items {
        // only the first self-types / jsx pragma counts
        if cat == "self-types" {
          if seen_self_types {
            continue;
          }
          seen_self_types = true;
        }
        if cat == "jsx-import-source:bare" {
          if seen_jsx {
            continue;
          }
          seen_jsx = true;
        }
        if cat == "jsx-import-source-types:bare" {
          if seen_jsx_types {
            continue;
          }
          seen_jsx_types = true;
        }
        if let Some(cat) = cat.strip_suffix(":tpl") {
          // the whole template literal, backticks included
          let a = t.find('`').unwrap();
          let b = t.rfind('`').unwrap() + 1;
          let inner = &t[a + 1..b - 1];
          // own mini parser: S(..) for text, E for `${...}`
          let mut value = String::new();
          let mut rest = inner;
          loop {
            match rest.find("${") {
              Some(i) => {
                if i > 0 || value.is_empty() {
                  value.push_str(&format!("S({})", &rest[..i]));
                }
                value.push('E');
                let j = rest[i..].find('}').unwrap();
                rest = &rest[i + j + 1..];
                if rest.is_empty() {
                  value.push_str("S()");
                  break;
                }
              }
              None => {
                value.push_str(&format!("S({rest})"));
                break;
              }
            }
          }
          // empty text parts carry no information; both sides are compared without them
          let value = value.replace("S()", "");
          expected.push(Item { cat: cat.to_string(), value, attr, lo: base + a, hi: base + b });
          continue;
        }
        let (needle, value) = if cat.ends_with(":bare") { (c.value.clone(), c.value.clone()) } else { (c.lit.clone(), c.value.clone()) };
        let lo = base + t.find(&needle).expect("literal present in statement");
        expected.push(Item { cat, value, attr, lo, hi: lo + needle.len() });
      }
      if t.contains("./pragma_target.js") {
        let lit = "\"./pragma_target.js\"";
        let lo = base + t.find(lit).unwrap();
        expected.push(Item { cat: "static:import".into(), value: "./pragma_target.js".into(), attr: None, lo, hi: lo + lit.len() });
      }
      text.push_str(&t);
    }
    if crlf {
      // convert line endings and shift the expected offsets accordingly
      let mut out = String::new();
      let mut map = vec![0usize; text.len() + 1];
      for (i, ch_) in text.char_indices() {
        map[i] = out.len();
        if ch_ == '\n' {
          out.push('\r');
        }
        out.push(ch_);
      }
      map[text.len()] = out.len();
      for e in expected.iter_mut() {
        e.lo = map[e.lo];
        e.hi = map[e.hi];
      }
      text = out;
    }
    let full = if bom { format!("\u{FEFF}{text}") } else { text.clone() };
    GenProgram { ext, text, full, crlf, bom, shebang, names: ordered.iter().map(|c| c.form.name).collect(), expected }
  }
}

fn body(max_items: usize) -> impl Fn(&Ch) -> Run + Sync + Send {
  move |ch: &Ch| {
    let mut run = Run::default();
    let gp = gen_program(ch, max_items);
    let (ext, text, full, crlf, bom, shebang, expected) = (gp.ext, gp.text.clone(), gp.full.clone(), gp.crlf, gp.bom, gp.shebang, gp.expected.clone());
    let names = gp.names.clone();
    let media_type = MediaType::from_specifier(&url(&format!("file:///p.{ext}")));
    let spec = url(&format!("file:///p.{ext}"));
    let analyzer = deno_graph::ast::ParserModuleAnalyzer::default();
    run.evals = 1;
    let case = |extra: Value| json!({"media": ext, "source": full, "crlf": crlf, "bom": bom, "shebang": shebang, "items": names, "detail": extra});
    let info = match analyzer.analyze_sync(&spec, full.clone().into(), media_type) {
      Ok(i) => i,
      Err(e) => {
        run.violate("generated-program-does-not-parse", format!("{e}"), case(json!({})));
        return run;
      }
    };
    let reported = collect(&info);
    // (1) multiset of (category, unescaped specifier, attribute)
    let mut want: Vec<(String, String, Option<String>)> = expected.iter().map(|e| (e.cat.clone(), e.value.clone(), e.attr.clone())).collect();
    let mut got: Vec<(String, String, Option<String>)> = reported.iter().map(|r| (r.cat.clone(), r.value.clone(), r.attr.clone())).collect();
    want.sort();
    got.sort();
    if want != got {
      let missing: Vec<_> = want.iter().filter(|w| !got.contains(w)).collect();
      let extra: Vec<_> = got.iter().filter(|g| !want.contains(g)).collect();
      let cls = missing.first().map(|m| format!("missing:{}", m.0)).or(extra.first().map(|m| format!("extra:{}", m.0))).unwrap_or("count".into());
      run.violate(
        format!("reported-dependencies-differ@{cls}"),
        format!("analysis reported {got:?}, the program declares {want:?}"),
        case(json!({})),
      );
    } else {
      // (2) every reported range covers exactly the specifier
      let mut exp_left = expected.clone();
      for r in &reported {
        let lo = offset_of(&text, r.range.start);
        let hi = offset_of(&text, r.range.end);
        let pos = exp_left.iter().position(|e| e.cat == r.cat && e.value == r.value && e.attr == r.attr && Some(e.lo) == lo && Some(e.hi) == hi);
        match pos {
          Some(p) => {
            exp_left.remove(p);
          }
          None => {
            let candidates: Vec<_> = exp_left.iter().filter(|e| e.cat == r.cat && e.value == r.value).map(|e| (e.lo, e.hi, &text[e.lo..e.hi])).collect();
            let covered = match (lo, hi) {
              (Some(a), Some(b)) if a <= b && b <= text.len() && text.is_char_boundary(a) && text.is_char_boundary(b) => format!("{:?}", &text[a..b]),
              _ => "<not a valid text range>".into(),
            };
            run.violate(
              format!("range-does-not-cover-specifier@{}", r.cat),
              format!("{} {:?}: range {}:{}-{}:{} covers {covered}, the specifier is at {candidates:?}", r.cat, r.value, r.range.start.line, r.range.start.character, r.range.end.line, r.range.end.character),
              case(json!({})),
            );
            break;
          }
        }
      }
    }
    // (4) position lookup on the module's dependencies in a built graph
    if ext != "d.ts" || true {
      let sched = Sched::new(SchedMode::Immediate);
      let loader = ScriptedLoader::new(sched);
      loader.add(spec.as_str(), Entry::bytes(full.as_bytes()));
      let mut g = deno_graph::ModuleGraph::new(deno_graph::GraphKind::All);
      // non-default: a resolver with a default JSX import source and types source
      let resolver_defaults = ch.choose("resolver_with_default_jsx_import_source", 2) == 1;
      let resolver = MapResolver {
        jsx_import_source: Some("https://x/jsxlib".into()),
        jsx_import_source_types: Some("https://x/jsxtypes".into()),
        ..Default::default()
      };
      let _ = build_graph(
        &mut g,
        vec![spec.clone()],
        &loader,
        BuildCfg {
          resolver: if resolver_defaults { Some(&resolver) } else { None },
          ..Default::default()
        },
        ch,
      );
      if let Some(deno_graph::Module::Js(js)) = g.get(&spec) {
        // a JSX module's types pragma is a dependency of the graph whenever the
        // module has an import source (its own pragma or the resolver's default)
        if let Some(tp) = expected.iter().find(|e| e.cat == "jsx-import-source-types:bare")
          && (resolver_defaults || expected.iter().any(|e| e.cat == "jsx-import-source:bare"))
        {
          let found = js.dependencies.values().any(|d| {
            d.maybe_type.maybe_range().is_some_and(|r| offset_of(&text, r.range.start) == Some(tp.lo) && offset_of(&text, r.range.end) == Some(tp.hi))
          });
          if !found {
            run.violate(
              "graph-omits-dependency@jsx-import-source-types",
              format!("the @jsxImportSourceTypes pragma {:?} at bytes {}..{} is not the type resolution of any dependency of the module (resolver defaults: {resolver_defaults})", tp.value, tp.lo, tp.hi),
              case(json!({"dependencies": js.dependencies.iter().map(|(k, d)| (k.clone(), crate::obs::dep_json(d))).collect::<serde_json::Map<_, _>>()})),
            );
          }
        }
        // all ranges a lookup may return
        let mut ranges: Vec<(String, PositionRange)> = vec![];
        for (k, d) in &js.dependencies {
          for im in &d.imports {
            ranges.push((k.clone(), im.specifier_range.range));
          }
          if let Some(r) = d.maybe_type.maybe_range() {
            ranges.push((k.clone(), r.range));
          }
        }
        let mut line = 0usize;
        for l in text.split('\n') {
          let n_chars = l.chars().count();
          for c in 0..=n_chars {
            let p = Position::new(line, c);
            let inside: Vec<&(String, PositionRange)> = ranges.iter().filter(|(_, r)| r.includes(p)).collect();
            for (k, d) in &js.dependencies {
              let got = d.includes(p).map(|r| r.range);
              let own: Vec<PositionRange> = inside.iter().filter(|(kk, _)| kk == k).map(|(_, r)| *r).collect();
              run.evals += 1;
              match got {
                Some(r) if !own.contains(&r) => {
                  run.violate("position-lookup-returns-foreign-range", format!("dependency {k:?}.includes({line}:{c}) = {r:?}"), case(json!({})));
                }
                None if !own.is_empty() => {
                  run.violate("position-lookup-misses-own-range", format!("dependency {k:?}.includes({line}:{c}) = None, but {own:?} contains it"), case(json!({})));
                }
                _ => {}
              }
            }
          }
          line += 1;
        }
        // every import range of the graph covers its specifier too
        for d in js.dependencies.values() {
          for im in &d.imports {
            let lo = offset_of(&text, im.specifier_range.range.start);
            let hi = offset_of(&text, im.specifier_range.range.end);
            let ok = expected.iter().any(|e| Some(e.lo) == lo && Some(e.hi) == hi);
            // jsx-runtime and friends have synthetic (zero) ranges
            if !ok && im.kind != deno_graph::ImportKind::JsxImportSource {
              run.violate(
                format!("graph-import-range-does-not-cover-specifier@{:?}", im.kind),
                format!("import {:?} of kind {:?} has range {:?}", im.specifier, im.kind, im.specifier_range.range),
                case(json!({})),
              );
            }
          }
        }
      }
    }
    run.state_key = hash_of(&(ext, &full));
    run.nontrivial = !expected.is_empty() && (full.bytes().any(|b| b >= 0x80) || crlf || expected.len() >= 2);
    run.outcome_key = hash_of(&got);
    if ch.describe() {
      run.sample = Some(case(json!({"expected": expected.iter().map(|e| json!([e.cat, e.value, e.lo, e.hi])).collect::<Vec<_>>()})));
    }
    run
  }
}

/// Every module source embedded in the repository's spec corpus: the text
/// at every reported range, unquoted and unescaped, must be the specifier.
fn body_corpus(ch: &Ch) -> Run {
  let mut run = Run::default();
  let files = corpus_files();
  let idx = ch.shape("spec_file", files.len().max(1));
  let Some(path) = files.get(idx) else {
    return run;
  };
  let content = std::fs::read_to_string(path).unwrap_or_default();
  let mut n_sources = 0;
  for (name, src) in spec_sources(&content) {
    let Ok(spec) = deno_graph::ModuleSpecifier::parse(&name) else { continue };
    let mt = MediaType::from_specifier(&spec);
    if !matches!(mt, MediaType::TypeScript | MediaType::JavaScript | MediaType::Tsx | MediaType::Jsx | MediaType::Dts | MediaType::Mts | MediaType::Mjs | MediaType::Cts | MediaType::Cjs | MediaType::Dmts | MediaType::Dcts) {
      continue;
    }
    let analyzer = deno_graph::ast::ParserModuleAnalyzer::default();
    let Ok(info) = analyzer.analyze_sync(&spec, src.clone().into(), mt) else { continue };
    n_sources += 1;
    for r in collect(&info) {
      if r.value.starts_with('<') {
        continue; // non-literal dynamic argument
      }
      run.evals += 1;
      let lo = offset_of(&src, r.range.start);
      let hi = offset_of(&src, r.range.end);
      let covered = match (lo, hi) {
        (Some(a), Some(b)) if a <= b && b <= src.len() && src.is_char_boundary(a) && src.is_char_boundary(b) => &src[a..b],
        _ => "",
      };
      let unq = covered.trim_matches(|c| c == '"' || c == '\'' || c == '`');
      if unq != r.value && unescape(unq) != r.value {
        run.violate(
          format!("corpus-range-does-not-cover-specifier@{}", r.cat),
          format!("{path}: {name}: {} {:?} has range covering {covered:?}", r.cat, r.value),
          json!({"file": path, "module": name}),
        );
      }
    }
  }
  run.state_key = hash_of(path);
  run.nontrivial = n_sources > 0;
  run.outcome_key = hash_of(&(path, run.evals));
  run.count("corpus_sources", n_sources);
  if ch.describe() {
    run.sample = Some(json!({"spec_file": path, "sources_analysed": n_sources}));
  }
  run
}

fn unescape(s: &str) -> String {
  // enough of JS string escapes for the corpus: \\ \' \" \n \xHH \uHHHH \u{H+}
  let mut out = String::new();
  let cs: Vec<char> = s.chars().collect();
  let mut i = 0;
  while i < cs.len() {
    if cs[i] == '\\' && i + 1 < cs.len() {
      match cs[i + 1] {
        'n' => { out.push('\n'); i += 2; }
        'x' if i + 3 < cs.len() => {
          let h: String = cs[i + 2..i + 4].iter().collect();
          out.push(char::from_u32(u32::from_str_radix(&h, 16).unwrap_or(0xFFFD)).unwrap_or('\u{FFFD}'));
          i += 4;
        }
        'u' if i + 2 < cs.len() && cs[i + 2] == '{' => {
          let end = cs[i..].iter().position(|c| *c == '}').map(|p| p + i).unwrap_or(cs.len() - 1);
          let h: String = cs[i + 3..end].iter().collect();
          out.push(char::from_u32(u32::from_str_radix(&h, 16).unwrap_or(0xFFFD)).unwrap_or('\u{FFFD}'));
          i = end + 1;
        }
        'u' if i + 5 < cs.len() => {
          let h: String = cs[i + 2..i + 6].iter().collect();
          out.push(char::from_u32(u32::from_str_radix(&h, 16).unwrap_or(0xFFFD)).unwrap_or('\u{FFFD}'));
          i += 6;
        }
        c => { out.push(c); i += 2; }
      }
    } else {
      out.push(cs[i]);
      i += 1;
    }
  }
  out
}

pub fn corpus_files() -> Vec<String> {
  let mut out = vec![];
  fn walk(dir: &std::path::Path, out: &mut Vec<String>) {
    if let Ok(rd) = std::fs::read_dir(dir) {
      let mut entries: Vec<_> = rd.flatten().map(|e| e.path()).collect();
      entries.sort();
      for p in entries {
        if p.is_dir() {
          walk(&p, out);
        } else if p.extension().is_some_and(|e| e == "txt") {
          out.push(p.to_string_lossy().to_string());
        }
      }
    }
  }
  walk(std::path::Path::new("/repo/tests/specs"), &mut out);
  out
}

/// `# <specifier>` sections of a spec file up to `# output`.
pub fn spec_sources(content: &str) -> Vec<(String, String)> {
  let mut out: Vec<(String, String)> = vec![];
  let mut cur: Option<(String, String)> = None;
  for line in content.split_inclusive('\n') {
    if let Some(rest) = line.strip_prefix("# ") {
      if let Some(c) = cur.take() {
        out.push(c);
      }
      let name = rest.trim();
      if name == "output" || name.starts_with("output") {
        break;
      }
      cur = Some((name.to_string(), String::new()));
    } else if let Some(c) = cur.as_mut() {
      c.1.push_str(line);
    }
  }
  if let Some(c) = cur {
    out.push(c);
  }
  out
    .into_iter()
    .filter(|(n, _)| !n.contains(' '))
    .map(|(n, s)| {
      let n = if n.contains("://") || n.starts_with("data:") { n } else { format!("file:///{}", n.trim_start_matches('/')) };
      (n, s.strip_suffix('\n').unwrap_or(&s).to_string())
    })
    .collect()
}

/// all sections of a spec file (any content type), names normalised to URLs
pub fn spec_sources_all(content: &str) -> Vec<(String, String)> {
  spec_sources(content)
}

pub fn prop(tier: Tier) -> Prop {
  let parts = match tier {
    Tier::Quick => vec![
      Part {
        name: "programs",
        body: Box::new(body(2)),
        modes: vec![Mode::Deviations(1), Mode::Deviations(2)],
        what: "all programs of <= 2 items over the 28-form alphabet x 8 media types (complete), spelling / quote / trivia / CRLF / BOM / shebang choices deviation-bounded",
      },
      Part {
        name: "corpus",
        body: Box::new(body_corpus),
        modes: vec![Mode::Full],
        what: "every module source embedded in /repo/tests/specs (generic range oracle)",
      },
    ],
    Tier::Thorough => vec![
      Part {
        name: "programs",
        body: Box::new(body(3)),
        modes: vec![Mode::Deviations(1), Mode::Deviations(2), Mode::Deviations(3)],
        what: "all programs of <= 3 items over the form alphabet x 8 media types; spelling/trivia/line-ending choices deviation-bounded",
      },
      Part {
        name: "corpus",
        body: Box::new(body_corpus),
        modes: vec![Mode::Full],
        what: "every module source embedded in /repo/tests/specs",
      },
    ],
  };
  Prop {
    id: "C08",
    rule: "state = generated program: sequence of items from a 28-form alphabet (imports/exports incl. type, defer, source, attributes; dynamic import plain / with attribute / nested; import type expression; import-equals; declare module; @ts-types / @deno-types pragmas in line and block comments; triple-slash references; @ts-self-types; @jsxImportSource; JSDoc import() and @import; sourceMappingURL; 3 non-dependency statements) x media type (form choice complete) with specifier spelling (ASCII, 2-byte, astral, \\x / \\u{} / \\' escapes), quote style, preceding trivia, CRLF, BOM, shebang (deviation-bounded). Oracle: multiset of reported (kind, unescaped specifier, attribute) = what the renderer wrote; each range mapped to bytes by an independent line/character mapper covers exactly the literal; Dependency::includes over every position of the text. Non-trivial = program with a dependency and non-ASCII text, CRLF or >= 2 dependencies. Plus the spec corpus.".into(),
    assumptions: vec![
      "positions are (line, Unicode scalar value index), lines split at LF, relative to the text after a leading BOM - deno_ast's documented unit".into(),
      "only the first @ts-self-types / @jsxImportSource pragma counts; leading forms are placed before the first token, sourceMappingURL last".into(),
      "`assert { }` attributes, require() in JS and non-literal (identifier) dynamic arguments are outside the generated alphabet (the corpus contains them); template-literal arguments are reported as their string / expression parts (empty text parts ignored) with the range of the whole literal - their expansion against a directory listing is not covered".into(),
    ],
    parts,
    termination_property: false,
    min_outcomes: 10,
  }
}
