//! C12 — fast check is all-or-nothing per package, cache-transparent and
//! deterministic.

use crate::engine::*;
use crate::env::*;
use crate::fc::*;
use crate::obs::*;
use crate::report::*;
use serde_json::Value;
use serde_json::json;
use std::collections::BTreeMap;

struct Mod {
  pkg: &'static str,
  path: &'static str,
  variants: &'static [&'static str],
}

const MODS: &[Mod] = &[
  Mod {
    pkg: "@s/a",
    path: "/mod.ts",
    variants: &[
      "export * from \"./a.ts\";\nexport const m: number = 1;\n",
      "export * from \"./a.ts\";\nexport const m = Math.random();\n",
      "export * from \"./a.ts\";\nexport { helper as renamed } from \"./h.ts\";\nexport type MT = string;\n",
      // a star re-export of the dependency package: its modules are traced before the package itself comes up
      "export * from \"jsr:@s/b@1\";\nexport * from \"./a.ts\";\nexport const m: number = 1;\n",
    ],
  },
  Mod {
    pkg: "@s/a",
    path: "/a.ts",
    variants: &[
      "import type { BT } from \"jsr:@s/b@1\";\nexport function fa(x: BT): BT { return x; }\n",
      "export function fa(x: number) { return x; }\n",
      "import { helper } from \"./h.ts\";\nexport function fa2(): void { helper(); }\nexport const extra: number = 1;\n",
      // still imports @s/b (it stays in the graph), but only a function body uses it: not part of the public API any more
      "import type { BT } from \"jsr:@s/b@1\";\nexport function fa(x: number): number { const b: BT = { b: x }; return b.b; }\n",
    ],
  },
  Mod {
    pkg: "@s/a",
    path: "/c.ts",
    variants: &[
      "export const c: number = 1;\n",
      "export const c = Math.random();\n",
      "import { m } from \"./mod.ts\";\nexport const c: typeof m = 1;\n",
    ],
  },
  Mod {
    pkg: "@s/a",
    path: "/h.ts",
    variants: &[
      "export function helper(): number { return 1; }\n",
      "export function helper() { return 1; }\n",
    ],
  },
  Mod {
    pkg: "@s/b",
    path: "/mod.ts",
    variants: &[
      "export interface BT { b: number }\n",
      "export interface BT { b: number }\nexport function bad() { return 1; }\n",
      "export interface BT { b: number; extra?: string }\n",
      // more public API than a star re-export covers
      "export interface BT { b: number }\nexport default class BD { x: number = 1; }\nexport const second: number = 2;\n",
    ],
  },
  // a second top-level package that leads to @s/b as well
  Mod {
    pkg: "@s/d",
    path: "/mod.ts",
    variants: &[
      "import type { BT } from \"jsr:@s/b@1\";\nexport function fd(x: BT): BT { return x; }\n",
      "export function fd(x: number): number { return x; }\n",
    ],
  },
  // which packages the root program imports: only @s/a / @s/a then @s/d / @s/d then @s/a / only @s/d
  Mod { pkg: "root", path: "", variants: &["a", "ad", "da", "d"] },
];

const ROOT_MOD: usize = 6;

fn packages(variants: &[usize], two_entrypoints: bool, workspace: bool) -> Vec<FcPackage> {
  let files = |pkg: &str| -> Vec<(String, String)> {
    MODS
      .iter()
      .enumerate()
      .filter(|(_, m)| m.pkg == pkg)
      .map(|(i, m)| (m.path.to_string(), m.variants[variants[i]].to_string()))
      .collect()
  };
  let mut a_exports = vec![(".".to_string(), "./mod.ts".to_string())];
  if two_entrypoints {
    a_exports.push(("./c".to_string(), "./c.ts".to_string()));
  }
  vec![
    FcPackage { name: "@s/a".into(), version: "1.0.0".into(), files: files("@s/a"), exports: a_exports, workspace },
    FcPackage { name: "@s/b".into(), version: "1.0.0".into(), files: files("@s/b"), exports: vec![(".".to_string(), "./mod.ts".to_string())], workspace: false },
    FcPackage { name: "@s/d".into(), version: "1.0.0".into(), files: files("@s/d"), exports: vec![(".".to_string(), "./mod.ts".to_string())], workspace: false },
  ]
}

/// canonical, comparable form of a fast-check result
fn canon(r: &FcResult) -> BTreeMap<String, Value> {
  r.modules
    .iter()
    .map(|(u, (_, s))| {
      (
        u.clone(),
        match s {
          // clause 3 is about emitted output only: where diagnostics are
          // attached is clause 1's business
          FcSlot::None | FcSlot::Diagnostics(_) => json!("no-output"),
          FcSlot::Module { text, source_map, deps } => json!({"text": text, "source_map": source_map, "deps": strip_ranges(deps)}),
        },
      )
    })
    .collect()
}

fn strip_ranges(v: &Value) -> Value {
  match v {
    Value::Object(m) => Value::Object(m.iter().filter(|(k, _)| *k != "range").map(|(k, v)| (k.clone(), strip_ranges(v))).collect()),
    Value::Array(a) => Value::Array(a.iter().map(strip_ranges).collect()),
    o => o.clone(),
  }
}

fn check_state(r: &FcResult, pkgs: &[FcPackage], label: &str, run: &mut Run, case: &dyn Fn(Value) -> Value) {
  // (1) all-or-nothing per package
  for p in pkgs {
    let prefix = p.url("/");
    let entry: Vec<String> = p.exports.iter().map(|(_, e)| p.url(e.trim_start_matches('.'))).collect();
    let mods: Vec<(&String, &FcSlot)> = r.modules.iter().filter(|(u, _)| u.starts_with(&prefix)).map(|(u, (_, s))| (u, s)).collect();
    // only packages that were analysed at all (reachable from the roots)
    if mods.iter().all(|(_, s)| matches!(s, FcSlot::None)) {
      continue;
    }
    let with_output: Vec<&String> = mods.iter().filter(|(_, s)| matches!(s, FcSlot::Module { .. })).map(|(u, _)| *u).collect();
    let with_diag: Vec<&String> = mods.iter().filter(|(_, s)| matches!(s, FcSlot::Diagnostics(_))).map(|(u, _)| *u).collect();
    let entry_diag = entry.iter().filter(|e| with_diag.contains(e)).count();
    let entry_out = entry.iter().filter(|e| with_output.contains(e)).count();
    let ok_success = with_diag.is_empty() && entry_out == entry.len();
    let ok_failure = with_output.is_empty() && entry_diag == entry.len();
    if !ok_success && !ok_failure {
      let cls = if !with_output.is_empty() && !with_diag.is_empty() {
        "output-and-diagnostics-mixed"
      } else if with_output.is_empty() {
        "entrypoint-without-diagnostics"
      } else {
        "entrypoint-without-output"
      };
      run.violate(
        format!("not-all-or-nothing@{label}:{cls}"),
        format!("{}@{} ({label}): modules with output {with_output:?}, with diagnostics {with_diag:?}, entrypoints {entry:?}", p.name, p.version),
        case(json!({})),
      );
    }
  }
  // (2) recorded dependencies = what the emitted text declares
  for (u, (_, s)) in &r.modules {
    let FcSlot::Module { text, .. } = s else { continue };
    let Ok(parsed) = crate::fcast::parse(u, text) else { continue };
    let js = deno_graph::parse_module_from_ast(deno_graph::ParseModuleFromAstOptions {
      graph_kind: deno_graph::GraphKind::TypesOnly,
      specifier: url(u),
      maybe_headers: None,
      mtime: None,
      parsed_source: &parsed,
      file_system: &deno_graph::source::NullFileSystem,
      jsr_url_provider: Default::default(),
      maybe_resolver: None,
    });
    let want: Value = strip_ranges(&Value::Object(js.dependencies.iter().map(|(k, d)| (k.clone(), dep_json(d))).collect()));
    let got = match s {
      FcSlot::Module { deps, .. } => strip_ranges(deps),
      _ => unreachable!(),
    };
    if want != got {
      run.violate(
        format!("recorded-dependencies-differ-from-emitted-text@{label}"),
        format!("{u}: recorded {got}, the emitted text declares {want}"),
        case(json!({"module": u, "emitted": text})),
      );
    }
  }
}

fn body(depth: usize) -> impl Fn(&Ch) -> Run + Sync + Send {
  move |ch: &Ch| {
    let mut run = Run::default();
    let two_entrypoints = ch.flag("two_entrypoints");
    let workspace = ch.flag("package_a_is_a_workspace_member");
    let cache = RecordingFcCache::default();
    let mut variants = vec![0usize; MODS.len()];
    let mut history: Vec<String> = vec![];
    // op alphabet: 0 = stop, 1 = run again unchanged, then (module, variant)
    let mut ops: Vec<(usize, usize)> = vec![];
    for (i, m) in MODS.iter().enumerate() {
      for v in 0..m.variants.len() {
        ops.push((i, v));
      }
    }
    let mut outcome = vec![];
    for step in 0..depth {
      // the first step is always a (cold) run on the initial sources
      let op = if step == 0 { 1 } else { ch.shape("op", ops.len() + 2) };
      if op == 0 {
        break;
      }
      if op >= 2 {
        let (m, v) = ops[op - 2];
        if variants[m] == v {
          continue; // no-op edit: covered by "run again"
        }
        variants[m] = v;
        history.push(format!("edit {}{} -> variant {v}", MODS[m].pkg, MODS[m].path));
      } else {
        history.push("run".into());
      }
      let pkgs = packages(&variants, two_entrypoints, workspace);
      let roots: Vec<usize> = MODS[ROOT_MOD].variants[variants[ROOT_MOD]].chars().map(|c| if c == 'a' { 0 } else { 2 }).collect();
      let Some(with_cache) = fast_check_roots(&pkgs, &roots, Some(&cache), ch) else { break };
      let Some(without) = fast_check_roots(&pkgs, &roots, None, ch) else { break };
      let Some(without2) = fast_check_roots(&pkgs, &roots, None, ch) else { break };
      // the same pass run twice on one graph object
      REPEAT_FINAL_PASS.with(|r| r.set(true));
      let twice = fast_check_roots(&pkgs, &roots, None, ch);
      REPEAT_FINAL_PASS.with(|r| r.set(false));
      let Some(twice) = twice else { break };
      run.evals += 4;
      let case = |extra: Value| {
        json!({"two_entrypoints": two_entrypoints, "package_a_is_a_workspace_member": workspace, "history": history,
          "root_imports": MODS[ROOT_MOD].variants[variants[ROOT_MOD]],
          "sources": pkgs.iter().flat_map(|p| p.files.iter().map(|(f, s)| json!([p.url(f), s]))).collect::<Vec<_>>(),
          "cache_traffic": cache.log.borrow().clone(),
          "with_cache": with_cache.modules.iter().map(|(u, (_, s))| (u.clone(), slot_brief(s))).collect::<BTreeMap<_, _>>(),
          "without_cache": without.modules.iter().map(|(u, (_, s))| (u.clone(), slot_brief(s))).collect::<BTreeMap<_, _>>(),
          "detail": extra})
      };
      if !with_cache.graph_errors.is_empty() {
        break; // a variant combination that does not build is not a fast-check question
      }
      check_state(&without, &pkgs, "no-cache", &mut run, &case);
      check_state(&with_cache, &pkgs, "with-cache", &mut run, &case);
      // (3) cache transparency
      let a = canon(&with_cache);
      let b = canon(&without);
      if a != b {
        let diff: Vec<String> = a.iter().filter(|(k, v)| b.get(*k) != Some(v)).map(|(k, v)| format!("{k}: with cache {}, without {}", brief(v), brief(b.get(k).unwrap_or(&Value::Null)))).collect();
        let only_presence = a.iter().all(|(k, v)| {
          let w = b.get(k).unwrap_or(&Value::Null);
          v == w || (v.is_string() || w.is_string())
        });
        // recorded defect: a cached *failure* of the importing package hides
        // the dependency package from analysis
        let a_prefix = pkgs[0].url("/");
        let b_prefix = pkgs[1].url("/");
        let a_failed = |m: &BTreeMap<String, Value>| m.iter().filter(|(k, _)| k.starts_with(&a_prefix)).all(|(_, v)| v.is_string());
        let dep_pkg_hidden = only_presence
          && a_failed(&a)
          && a_failed(&b)
          && a.iter().all(|(k, v)| {
            let w = b.get(k).unwrap_or(&Value::Null);
            v == w || (k.starts_with(&b_prefix) && v.is_string() && !w.is_string())
          });
        // ... and its mirror image: the cached failure was recorded while the
        // package still named the dependency package in its public API; the
        // sources no longer do, the reused failure entry brings it in anyway
        let dep_pkg_added = only_presence
          && a_failed(&a)
          && a_failed(&b)
          && a.iter().all(|(k, v)| {
            let w = b.get(k).unwrap_or(&Value::Null);
            v == w || (k.starts_with(&b_prefix) && !v.is_string() && w.is_string())
          });
        run.violate(
          if dep_pkg_hidden {
            "cached-failure-hides-dependency-package".to_string()
          } else if dep_pkg_added {
            "cached-failure-brings-in-dependency-package-the-sources-no-longer-expose".to_string()
          } else {
            format!("cache-changes-result:{}", if only_presence { "which-modules-have-output" } else { "emitted-content" })
          },
          format!("after {history:?}: {diff:?}"),
          case(json!({})),
        );
      }
      // (4) determinism
      if canon(&twice) != b {
        run.violate("second-pass-on-the-same-graph-differs", format!("after {history:?}: running fast check twice on one graph gives a different result than running it once"), case(json!({})));
      }
      if canon(&without2) != b {
        run.violate("repeated-run-differs", format!("after {history:?}: two cache-less runs on the same sources differ"), case(json!({})));
      }
      outcome.push(hash_of(&format!("{b:?}")));
    }
    run.state_key = hash_of(&(two_entrypoints, workspace, &history));
    run.nontrivial = history.len() >= 2;
    run.outcome_key = hash_of(&outcome);
    if ch.describe() {
      run.sample = Some(json!({"two_entrypoints": two_entrypoints, "package_a_is_a_workspace_member": workspace, "history": history, "cache_traffic": cache.log.borrow().clone()}));
    }
    run
  }
}

fn slot_brief(s: &FcSlot) -> String {
  match s {
    FcSlot::None => "none".into(),
    FcSlot::Module { .. } => "output".into(),
    FcSlot::Diagnostics(d) => format!("diagnostics {d:?}"),
  }
}

fn brief(v: &Value) -> String {
  if v.is_string() { v.as_str().unwrap().to_string() } else if v.is_null() { "absent".into() } else { "output".into() }
}

pub fn prop(tier: Tier) -> Prop {
  let depth = match tier {
    Tier::Quick => 4,
    Tier::Thorough => 5,
  };
  Prop {
    id: "C12",
    rule: format!("state = operation history of length <= {depth} over a three-package world (@s/a: mod.ts re-exporting a.ts, c.ts as optional second entrypoint, helper h.ts; @s/b imported by a.ts and by @s/d; the root program imports @s/a, @s/d or both in either order, and is editable too) with 2-3 source variants per module (clean / diagnostic-bearing / clean with different exports or imports); operations = run again, or edit one module to another variant and run; the fast-check cache is shared along the history (cold, warm, stale). After every operation: all-or-nothing per package (with and without cache), recorded dependencies of each emitted module = dependencies declared by its emitted text (re-analysed), with-cache result = cache-less result (set of modules with output / diagnostics, text, dependencies, source map), two cache-less runs identical, and a second pass over the same graph object changes nothing. Histories are enumerated completely. Non-trivial = history of >= 2 operations."),
    assumptions: vec![
      "each operation rebuilds the graph from the current sources (an edit changes what the registry serves) and runs fast check against the shared cache".into(),
      "@s/a is either published to the registry or a local workspace member (file: URLs, WorkspaceFastCheckOption::Enabled); fast_check_dts is not part of the world".into(),
    ],
    parts: vec![Part {
      name: "histories",
      body: Box::new(body(depth)),
      modes: vec![Mode::Full],
      what: "all operation histories up to the depth, one and two entrypoints, @s/a as registry package and as workspace member",
    }],
    termination_property: false,
    min_outcomes: 6,
  }
}
