//! C13 — module information survives serialisation; the manifest shortcut
//! (embedded module graph) equals parsing.

use crate::engine::*;
use crate::env::*;
use crate::obs::*;
use crate::registry::*;
use crate::report::*;
use deno_graph::GraphKind;
use deno_graph::MediaType;
use deno_graph::ModuleGraph;
use deno_graph::Position;
use deno_graph::PositionRange;
use deno_graph::analysis::*;
use serde_json::Value;
use serde_json::json;
use std::collections::HashMap;

fn round_trip(info: &ModuleInfo, run: &mut Run, case: &dyn Fn() -> Value) {
  let v = serde_json::to_value(info).unwrap();
  match serde_json::from_value::<ModuleInfo>(v.clone()) {
    Ok(back) if &back == info => {}
    Ok(back) => run.violate(
      format!("value-round-trip-changes-module-info@{}", first_diff(info, &back)),
      format!("from_value(to_value(x)) != x: {v}"),
      case(),
    ),
    Err(e) => run.violate("value-round-trip-fails-to-deserialize", format!("{e}: {v}"), case()),
  }
  let s = serde_json::to_string(info).unwrap();
  match serde_json::from_str::<ModuleInfo>(&s) {
    Ok(back) if &back == info => {}
    Ok(back) => run.violate(
      format!("string-round-trip-changes-module-info@{}", first_diff(info, &back)),
      format!("from_str(to_string(x)) != x: {s}"),
      case(),
    ),
    Err(e) => run.violate("string-round-trip-fails-to-deserialize", format!("{e}: {s}"), case()),
  }
}

fn first_diff(a: &ModuleInfo, b: &ModuleInfo) -> &'static str {
  if a.is_script != b.is_script {
    "is_script"
  } else if a.dependencies != b.dependencies {
    "dependencies"
  } else if a.ts_references != b.ts_references {
    "ts_references"
  } else if a.self_types_specifier != b.self_types_specifier {
    "self_types_specifier"
  } else if a.jsx_import_source != b.jsx_import_source {
    "jsx_import_source"
  } else if a.jsx_import_source_types != b.jsx_import_source_types {
    "jsx_import_source_types"
  } else if a.jsdoc_imports != b.jsdoc_imports {
    "jsdoc_imports"
  } else {
    "source_map_url"
  }
}

/// (a1) every ModuleInfo the analyser produces for generated programs
fn body_analysed(max_items: usize) -> impl Fn(&Ch) -> Run + Sync + Send {
  move |ch: &Ch| {
    let mut run = Run::default();
    let gp = crate::props::c08::gen_program(ch, max_items);
    let spec = url(&format!("file:///p.{}", gp.ext));
    let analyzer = deno_graph::ast::ParserModuleAnalyzer::default();
    let Ok(info) = analyzer.analyze_sync(&spec, gp.full.clone().into(), MediaType::from_specifier(&spec)) else {
      return run;
    };
    run.evals = 1;
    let case = || json!({"media": gp.ext, "source": gp.full});
    round_trip(&info, &mut run, &case);
    run.state_key = hash_of(&gp.full);
    run.nontrivial = !info.dependencies.is_empty() || !info.ts_references.is_empty() || info.self_types_specifier.is_some();
    run.outcome_key = hash_json(&serde_json::to_value(&info).unwrap());
    if ch.describe() {
      run.sample = Some(json!({"source": gp.full, "module_info": info}));
    }
    run
  }
}

fn pr(ch: &Ch) -> PositionRange {
  // default / non-default ranges
  match ch.choose("range", 3) {
    0 => PositionRange { start: Position::new(0, 0), end: Position::new(0, 0) },
    1 => PositionRange { start: Position::new(0, 7), end: Position::new(0, 16) },
    _ => PositionRange { start: Position::new(3, 1), end: Position::new(4, 0) },
  }
}

fn swr(ch: &Ch) -> SpecifierWithRange {
  let text = ["./a.ts", "", "./\u{e9}\u{1F600}\"\\.ts"][ch.choose("text", 3)].to_string();
  SpecifierWithRange { text, range: pr(ch) }
}

fn attrs(ch: &Ch) -> ImportAttributes {
  match ch.choose("attributes", 6) {
    0 => ImportAttributes::None,
    1 => ImportAttributes::Unknown,
    2 => ImportAttributes::Known(HashMap::from([("type".to_string(), ImportAttribute::Known("json".to_string()))])),
    3 => ImportAttributes::Known(HashMap::from([("type".to_string(), ImportAttribute::Unknown)])),
    4 => ImportAttributes::Known(HashMap::new()),
    _ => ImportAttributes::Known(HashMap::from([
      ("type".to_string(), ImportAttribute::Known("".to_string())),
      ("resolution-mode".to_string(), ImportAttribute::Known("require".to_string())),
    ])),
  }
}

/// (a2) direct enumeration of ModuleInfo values over per-field alphabets
fn body_values(ch: &Ch) -> Run {
  let mut run = Run::default();
  let mut info = ModuleInfo::default();
  info.is_script = ch.choose("is_script", 2) == 1;
  let n_deps = ch.choose("n_dependencies", 3);
  for _ in 0..n_deps {
    if ch.choose("dependency_type", 2) == 0 {
      let kinds = [
        StaticDependencyKind::Import,
        StaticDependencyKind::ImportDefer,
        StaticDependencyKind::ImportSource,
        StaticDependencyKind::ImportType,
        StaticDependencyKind::ImportEquals,
        StaticDependencyKind::Export,
        StaticDependencyKind::ExportType,
        StaticDependencyKind::ExportEquals,
        StaticDependencyKind::MaybeTsModuleAugmentation,
      ];
      info.dependencies.push(DependencyDescriptor::Static(StaticDependencyDescriptor {
        kind: kinds[ch.choose("static_kind", kinds.len())],
        types_specifier: if ch.choose("types_specifier", 2) == 1 { Some(swr(ch)) } else { None },
        specifier: ["./dep.ts", "", "./\u{1F600}.ts"][ch.choose("specifier", 3)].to_string(),
        specifier_range: pr(ch),
        is_side_effect: ch.choose("side_effect", 2) == 1,
        import_attributes: attrs(ch),
      }));
    } else {
      let kinds = [DynamicDependencyKind::Import, DynamicDependencyKind::ImportDefer, DynamicDependencyKind::ImportSource, DynamicDependencyKind::Require];
      let argument = match ch.choose("dynamic_argument", 6) {
        0 => DynamicArgument::String("./dyn.ts".into()),
        1 => DynamicArgument::String("".into()),
        2 => DynamicArgument::Expr,
        3 => DynamicArgument::Template(vec![]),
        4 => DynamicArgument::Template(vec![DynamicTemplatePart::String { value: "./".into() }, DynamicTemplatePart::Expr]),
        _ => DynamicArgument::Template(vec![DynamicTemplatePart::Expr, DynamicTemplatePart::String { value: "".into() }]),
      };
      info.dependencies.push(DependencyDescriptor::Dynamic(DynamicDependencyDescriptor {
        kind: kinds[ch.choose("dynamic_kind", kinds.len())],
        types_specifier: if ch.choose("types_specifier", 2) == 1 { Some(swr(ch)) } else { None },
        argument,
        argument_range: pr(ch),
        import_attributes: attrs(ch),
      }));
    }
  }
  let n_refs = ch.choose("n_ts_references", 3);
  for _ in 0..n_refs {
    info.ts_references.push(match ch.choose("reference", 4) {
      0 => TypeScriptReference::Path(swr(ch)),
      1 => TypeScriptReference::Types { specifier: swr(ch), resolution_mode: None },
      2 => TypeScriptReference::Types { specifier: swr(ch), resolution_mode: Some(TypeScriptTypesResolutionMode::Import) },
      _ => TypeScriptReference::Types { specifier: swr(ch), resolution_mode: Some(TypeScriptTypesResolutionMode::Require) },
    });
  }
  if ch.choose("self_types", 2) == 1 {
    info.self_types_specifier = Some(swr(ch));
  }
  if ch.choose("jsx_import_source", 2) == 1 {
    info.jsx_import_source = Some(swr(ch));
  }
  if ch.choose("jsx_import_source_types", 2) == 1 {
    info.jsx_import_source_types = Some(swr(ch));
  }
  let n_jsdoc = ch.choose("n_jsdoc_imports", 3);
  for _ in 0..n_jsdoc {
    info.jsdoc_imports.push(JsDocImportInfo {
      specifier: swr(ch),
      resolution_mode: [None, Some(TypeScriptTypesResolutionMode::Import), Some(TypeScriptTypesResolutionMode::Require)][ch.choose("jsdoc_mode", 3)].clone(),
    });
  }
  if ch.choose("source_map_url", 2) == 1 {
    info.source_map_url = Some(swr(ch));
  }
  run.evals = 1;
  let v = serde_json::to_value(&info).unwrap();
  let case = || json!({"module_info_debug": format!("{info:?}")});
  round_trip(&info, &mut run, &case);
  run.state_key = hash_json(&v);
  run.nontrivial = v.as_object().is_some_and(|m| !m.is_empty());
  run.outcome_key = hash_json(&v);
  if ch.describe() {
    run.sample = Some(json!({"module_info": v}));
  }
  run
}

/// (b) moduleGraph1 manifests are upgraded without losing @deno-types
fn body_v1(ch: &Ch) -> Run {
  let mut run = Run::default();
  let pragma_forms = [
    None,
    Some(" @deno-types=\"./a.d.ts\""),
    Some(" @deno-types='./a.d.ts'"),
    Some(" @deno-types=./a.d.ts"),
    Some("@deno-types=\"./a.d.ts\""),
    Some(" \u{e9}\u{1F600} @deno-types=\"./a.d.ts\""),
    Some(" @deno-types=\"./\u{e9}.d.ts\""),
  ];
  let block = ch.flag("block_comment");
  let n_stmts = 1 + ch.shape("statements", 3);
  // (only static imports: for them the statement's leading comments are the
  // import's leading comments, which is what a v1 manifest recorded)
  let mut src = String::new();
  let mut v1_deps = vec![];
  let mut any_pragma = false;
  let mut line = 0usize;
  for k in 0..n_stmts {
    let pragma = pragma_forms[ch.shape("pragma", pragma_forms.len())];
    any_pragma |= pragma.is_some();
    let unrelated_before = ch.flag("unrelated_comment_before");
    let unrelated_after = ch.flag("unrelated_comment_after");
    let mut comments: Vec<String> = vec![];
    if unrelated_before {
      comments.push(" just a comment".into());
    }
    if let Some(p) = pragma {
      comments.push(p.to_string());
    }
    if unrelated_after {
      comments.push(" trailing remark".into());
    }
    // a v1 manifest omits the key for an import without leading comments
    let omit_empty_key = comments.is_empty() && ch.flag("leadingComments_key_omitted");
    let mut v1_comments = vec![];
    for c in &comments {
      let text = if block { format!("/*{c}*/") } else { format!("//{c}") };
      v1_comments.push(json!({"text": c, "range": [[line, 0], [line, text.chars().count()]]}));
      src.push_str(&text);
      src.push('\n');
      line += 1;
    }
    let name = ["a", "b", "c"][k];
    let stmt = format!("import {name} from \"./{name}.js\";\n");
    let mut dep = json!({"type": "static", "kind": "import", "specifier": format!("./{name}.js"), "specifierRange": [[line, 14], [line, 22]]});
    if !omit_empty_key {
      dep["leadingComments"] = json!(v1_comments);
    }
    v1_deps.push(dep);
    src.push_str(&stmt);
    line += 1;
  }
  let version_info = deno_graph::packages::JsrPackageVersionInfo {
    exports: json!({".": "./mod.ts"}),
    module_graph_1: Some(json!({"/mod.ts": {"dependencies": v1_deps}})),
    module_graph_2: None,
    manifest: Default::default(),
    lockfile_checksum: None,
  };
  run.evals = 1;
  let upgraded = version_info.module_info("/mod.ts");
  let spec = url("https://jsr.io/@s/a/1.0.0/mod.ts");
  let parsed = deno_graph::ast::ParserModuleAnalyzer::default()
    .analyze_sync(&spec, src.clone().into(), MediaType::TypeScript)
    .unwrap();
  // per dependency: (specifier, types specifier)
  let types_of = |i: &ModuleInfo| -> Vec<(String, Option<String>)> {
    i.dependencies
      .iter()
      .map(|d| match d {
        DependencyDescriptor::Static(s) => (s.specifier.clone(), s.types_specifier.as_ref().map(|t| t.text.clone())),
        DependencyDescriptor::Dynamic(s) => (format!("{:?}", s.argument), s.types_specifier.as_ref().map(|t| t.text.clone())),
      })
      .collect()
  };
  let case = json!({"source": src, "v1": version_info.module_graph_1});
  match &upgraded {
    None => run.violate("v1-manifest-entry-not-upgraded", "module_info() returned None for a moduleGraph1 entry", case.clone()),
    Some(u) => {
      if u.dependencies.len() != parsed.dependencies.len() {
        run.violate("v1-upgrade-changes-dependency-count", format!("{} vs {}", u.dependencies.len(), parsed.dependencies.len()), case.clone());
      } else if types_of(u) != types_of(&parsed) {
        let lost = types_of(u).iter().zip(types_of(&parsed).iter()).any(|(a, b)| a.1.is_none() && b.1.is_some());
        run.violate(
          if lost { "v1-upgrade-loses-deno-types" } else { "v1-upgrade-invents-deno-types" },
          format!("upgraded (specifier, types specifier) {:?}, analysing the source gives {:?}", types_of(u), types_of(&parsed)),
          case.clone(),
        );
      }
    }
  }
  run.state_key = hash_of(&src);
  run.nontrivial = any_pragma;
  run.outcome_key = hash_of(&format!("{:?}", upgraded.as_ref().map(types_of)));
  if ch.describe() {
    run.sample = Some(case);
  }
  run
}

const IMPORT_FORMS: &[&str] = &[
  "",
  "import * as i@N from \"@T\";\n",
  "export * from \"@T\";\n",
  "import type { T@N } from \"@T\";\n",
  "const d@N = await import(\"@T\");\n",
  "// @ts-types=\"@U\"\nimport * as p@N from \"@T\";\n",
  "/// <reference types=\"@T\" />\n",
  "import j@N from \"@T\" with { type: \"json\" };\n",
  "import t@N from \"@T\" with { type: \"text\" };\n",
  "export type I@N = import(\"@T\").X;\n",
  "import source s@N from \"@T\";\n",
  "import b@N from \"@T\" with { type: \"bytes\" };\n",
  "const ds@N = await import.source(\"@T\");\n",
];
const TARGETS: &[&str] = &["./a.ts", "./b.ts", "./c.js", "./data.json", "./types.d.ts", "./missing.ts", "jsr:@s/b@1", "npm:x@1", "https://x/remote.ts", "./sub/d.ts"];

/// (c) a graph built from embedded module information equals the graph built
/// by parsing the same package sources
fn body_shortcut(ch: &Ch) -> Run {
  let mut run = Run::default();
  // package files and their import lists
  let files = ["/mod.ts", "/a.ts", "/b.ts", "/c.js", "/sub/d.ts"];
  let mut sources: Vec<(String, String)> = vec![];
  for (fi, f) in files.iter().enumerate() {
    let mut head = String::new();
    let mut body = String::new();
    for slot in 0..2 {
      let form = IMPORT_FORMS[ch.choose("import_form", IMPORT_FORMS.len())];
      if form.is_empty() {
        continue;
      }
      // default target: the next file
      let mut targets: Vec<&str> = TARGETS.to_vec();
      targets.rotate_left(fi % 3);
      let t = targets[ch.choose("import_target", targets.len())];
      let t = if *f == "/sub/d.ts" && t.starts_with("./") { format!(".{t}") } else { t.to_string() };
      let text = form.replace("@T", &t).replace("@U", if *f == "/sub/d.ts" { "../types.d.ts" } else { "./types.d.ts" }).replace("@N", &format!("{fi}{slot}"));
      if form.starts_with("///") {
        head.push_str(&text);
      } else {
        body.push_str(&text);
      }
    }
    sources.push((f.to_string(), format!("{head}{body}export const v{fi} = {fi};\n")));
  }
  sources.push(("/data.json".into(), "{\"k\": 1}".into()));
  sources.push(("/types.d.ts".into(), "export declare const X: number;\nexport type T = number;\n".into()));
  let entry = ["./mod.ts", "./a.ts"][ch.choose("entrypoint", 2)];
  let root_import = ["jsr:@s/a", "jsr:@s/a@1/", "https://jsr.io/@s/a/1.0.0/mod.ts"][ch.choose("root_import", 3)];
  let dynamic_root = ch.choose("dynamic_root_import", 2) == 1;
  let build = |embed: bool, probe_hits: bool| -> Option<(Value, Vec<String>)> {
    let sched = Sched::new(SchedMode::Immediate);
    let loader = ScriptedLoader::new(sched);
    let root_src = if dynamic_root {
      format!("await import(\"{root_import}\");\n")
    } else {
      format!("import \"{root_import}\";\n")
    };
    loader.add_text("https://x/root.ts", &root_src);
    loader.add_text("https://x/remote.ts", "export const r = 1;\n");
    let mut v = RegVersion::new("1.0.0", &[]);
    v.files = sources.iter().map(|(p, s)| (p.clone(), s.as_bytes().to_vec())).collect();
    v.exports = json!({".": entry});
    v.embed_module_graph = embed;
    let a = RegPackage { name: "@s/a".into(), versions: vec![v], raw_meta: None };
    let b = RegPackage {
      name: "@s/b".into(),
      versions: vec![{
        let mut v = RegVersion::new("1.0.0", &[("/mod.ts", "export const b = 1;\n")]);
        v.embed_module_graph = embed;
        v
      }],
      raw_meta: None,
    };
    a.install(&loader);
    b.install(&loader);
    if !probe_hits {
      *loader.cached_only.borrow_mut() = Some(Default::default());
    }
    let npm = ScriptedNpmResolver::default();
    let mut g = ModuleGraph::new(GraphKind::All);
    build_graph(
      &mut g,
      vec![url("https://x/root.ts")],
      &loader,
      BuildCfg {
        unstable_text: true,
        unstable_bytes: true,
        npm: Some(&npm),
        ..Default::default()
      },
      ch,
    )
    .ok()?;
    let log = loader.log.borrow().iter().map(|c| format!("{} {} [{:?}] -> {}", c.kind, c.specifier, c.cache_setting, c.answer)).collect();
    Some((obs(&g), log))
  };
  run.evals = 3;
  let Some((parsed, _)) = build(false, true) else {
    run.violate("build-did-not-finish", "deadlock", json!({}));
    return run;
  };
  let case = |extra: Value| json!({"package_sources": sources.iter().map(|(p, s)| json!([p, s])).collect::<Vec<_>>(), "exports": entry, "root_import": root_import, "dynamic_root_import": dynamic_root, "detail": extra});
  for (name, embed, hits) in [("embedded+cache-miss", true, false), ("embedded+cache-hit", true, true)] {
    let Some((other, log)) = build(embed, hits) else {
      run.violate("build-did-not-finish", "deadlock", case(json!({})));
      continue;
    };
    for key in ["slots", "redirects", "mappings", "packages_with_deps", "roots", "has_node_specifier", "pending_slots"] {
      if other[key] != parsed[key] {
        let (cls, txt) = if key == "slots" { crate::props::c17::diff_detail(&other[key], &parsed[key]) } else { ("value".to_string(), format!("{} vs {}", other[key], parsed[key])) };
        run.violate(
          format!("manifest-shortcut-differs-from-parsing@{name}:{key}:{cls}"),
          format!("graph built from embedded module information ({name}) differs from the parsed one in `{key}`: {txt}"),
          case(json!({"with_embedded_info": other[key], "parsed": parsed[key], "loads": log})),
        );
        break;
      }
    }
  }
  run.state_key = hash_of(&format!("{sources:?}{entry}{root_import}{dynamic_root}"));
  run.nontrivial = sources.iter().any(|(_, s)| s.contains("import") || s.contains("reference"));
  run.outcome_key = hash_json(&parsed["slots"]);
  if ch.describe() {
    run.sample = Some(case(json!({})));
  }
  run
}

pub fn prop(tier: Tier) -> Prop {
  let (items, dv, ds) = match tier {
    Tier::Quick => (2, vec![Mode::Deviations(2), Mode::Deviations(3)], vec![Mode::Deviations(1), Mode::Deviations(2), Mode::Deviations(3)]),
    Tier::Thorough => (3, vec![Mode::Deviations(3), Mode::Deviations(4), Mode::Deviations(5)], vec![Mode::Deviations(2), Mode::Deviations(3), Mode::Deviations(4)]),
  };
  Prop {
    id: "C13",
    rule: "four parts: (analysed) every ModuleInfo the analyser produces for the C08 program space round-trips through to_value/from_value and to_string/from_str; (values) ModuleInfo values enumerated directly over per-field alphabets (every descriptor kind, every ImportAttributes / DynamicArgument variant incl. empty ones, resolution modes, default and non-default ranges, empty and non-ASCII texts) round-trip; (v1) moduleGraph1 entries with every leading-comment shape upgrade to the same @deno-types text as analysing the equivalent source; (shortcut) registry packages of 5 source files with generated import lists are published with and without moduleGraph2 and built with cache-probe hit/miss - the graphs must be identical. Non-trivial per part: info with content / pragma present / package with imports.".into(),
    assumptions: vec![
      "the embedded module graph is produced by this crate's analyser from exactly the published sources (the statement's premise)".into(),
      "graphs are compared on slots (incl. dependencies with ranges, sizes, source hashes, error entries), redirects, package mappings and package dependencies".into(),
    ],
    parts: vec![
      Part { name: "analysed", body: Box::new(body_analysed(items)), modes: vec![Mode::Deviations(1), Mode::Deviations(2)], what: "round trip of analyser output over the C08 program space" },
      Part { name: "values", body: Box::new(body_values), modes: dv, what: "round trip of directly enumerated ModuleInfo values" },
      Part { name: "v1", body: Box::new(body_v1), modes: vec![Mode::Full], what: "moduleGraph1 upgrade keeps @deno-types" },
      Part { name: "shortcut", body: Box::new(body_shortcut), modes: ds, what: "embedded module graph vs parsing, cache probe hit and miss" },
    ],
    termination_property: false,
    min_outcomes: 10,
  }
}
