//! C14 — redirect following terminates, is idempotent, and every lookup agrees
//! with the walk.

use crate::engine::*;
use crate::env::*;
use crate::obs::*;
use crate::report::*;
use deno_graph::GraphKind;
use deno_graph::Module;
use deno_graph::ModuleEntryRef;
use deno_graph::ModuleError;
use deno_graph::ModuleGraph;
use deno_graph::ModuleSpecifier;
use deno_graph::WalkOptions;
use serde_json::json;
use std::collections::BTreeSet;

#[derive(Debug, Clone, PartialEq)]
enum Reach {
  Module(String),
  Err(String),
  Nothing,
}

/// What the walk reaches when started at `s`: redirect entries are followed
/// transparently, the first non-redirect entry is the answer.
fn walk_reach(graph: &ModuleGraph, s: &ModuleSpecifier) -> Reach {
  let it = graph.walk(
    std::iter::once(s),
    WalkOptions {
      check_js: deno_graph::CheckJsOption::True,
      follow_dynamic: true,
      kind: GraphKind::CodeOnly,
      prefer_fast_check_graph: false,
    },
  );
  for (_spec, entry) in it {
    match entry {
      ModuleEntryRef::Redirect(_) => continue,
      ModuleEntryRef::Module(m) => return Reach::Module(m.specifier().to_string()),
      ModuleEntryRef::Err(e) => return Reach::Err(e.to_string()),
    }
  }
  Reach::Nothing
}

fn reach_of_try_get(r: Result<Option<&Module>, &ModuleError>) -> Reach {
  match r {
    Ok(Some(m)) => Reach::Module(m.specifier().to_string()),
    Ok(None) => Reach::Nothing,
    Err(e) => Reach::Err(e.to_string()),
  }
}

/// Where `s` sits relative to a redirect cycle of the graph: number of hops
/// before the cycle is entered, the cycle's length, and how many cycle members
/// hold an entry of their own - the identity of a cycle finding.
fn cycle_shape(graph: &ModuleGraph, s: &ModuleSpecifier, view: &BTreeSet<ModuleSpecifier>) -> String {
  let mut path: Vec<&ModuleSpecifier> = vec![s];
  let mut cur = s;
  while let Some(n) = graph.redirects.get(cur) {
    if let Some(pos) = path.iter().position(|p| *p == n) {
      let cycle = &path[pos..];
      let with_entry = cycle.iter().filter(|m| view.contains(**m)).count();
      return format!("tail{}+cycle{}+entries{}", pos, cycle.len(), with_entry);
    }
    path.push(n);
    cur = n;
  }
  "no-cycle-from-here".to_string()
}

/// All lookups against the walk, for every specifier of interest.
pub fn check_lookups(
  graph: &ModuleGraph,
  extra: &[ModuleSpecifier],
  shape_class: &str,
  run: &mut Run,
) -> usize {
  let mut interest: BTreeSet<ModuleSpecifier> = BTreeSet::new();
  interest.extend(graph.roots.iter().cloned());
  interest.extend(extra.iter().cloned());
  for (k, v) in &graph.redirects {
    interest.insert(k.clone());
    interest.insert(v.clone());
  }
  for m in graph.modules() {
    for d in m.dependencies().values() {
      if let Some(s) = d.get_code() {
        interest.insert(s.clone());
      }
      if let Some(s) = d.get_type() {
        interest.insert(s.clone());
      }
    }
    if let Some(t) = m.maybe_types_dependency()
      && let Some(s) = t.dependency.maybe_specifier()
    {
      interest.insert(s.clone());
    }
  }
  let listing: Vec<(ModuleSpecifier, Reach)> = graph
    .specifiers()
    .map(|(s, r)| {
      (
        s.clone(),
        match r {
          Ok(m) => Reach::Module(m.specifier().to_string()),
          Err(e) => Reach::Err(e.to_string()),
        },
      )
    })
    .collect();
  let mut checks = 0;
  // specifiers that hold an entry of their own (the serialised `modules` list)
  let holders: BTreeSet<ModuleSpecifier> = serde_json::to_value(graph).unwrap()["modules"]
    .as_array()
    .map(|a| a.iter().filter_map(|m| m["specifier"].as_str()).filter_map(|s| ModuleSpecifier::parse(s).ok()).collect())
    .unwrap_or_default();
  // cycle findings are identified by the shape they occur in, not by their class alone
  let cls = |s: &ModuleSpecifier| -> String {
    if shape_class == "redirect-cycle" {
      format!("redirect-cycle:{}", cycle_shape(graph, s, &holders))
    } else {
      shape_class.to_string()
    }
  };
  for s in &interest {
    let shape_class = cls(s);
    let shape_class = shape_class.as_str();
    let walk = walk_reach(graph, s);
    // termination of resolve is guarded by the watchdog
    let r1 = graph.resolve(s).clone();
    let r2 = graph.resolve(&r1).clone();
    checks += 1;
    if r1 != r2 {
      run.violate(
        format!("resolve-not-idempotent@{shape_class}"),
        format!("resolve({s}) = {r1} but resolve of that = {r2}"),
        json!({"start": s.as_str(), "first": r1.as_str(), "second": r2.as_str()}),
      );
    }
    let got = match graph.get(s) {
      Some(m) => Reach::Module(m.specifier().to_string()),
      None => Reach::Nothing,
    };
    let want_get = match &walk {
      Reach::Module(m) => Reach::Module(m.clone()),
      _ => Reach::Nothing,
    };
    checks += 1;
    if got != want_get {
      run.violate(
        format!("get-disagrees-with-walk@{shape_class}"),
        format!("get({s}) = {got:?}, the walk reaches {walk:?}"),
        json!({"start": s.as_str()}),
      );
    }
    let tg = reach_of_try_get(graph.try_get(s));
    checks += 1;
    if tg != walk {
      run.violate(
        format!("try_get-disagrees-with-walk@{shape_class}"),
        format!("try_get({s}) = {tg:?}, the walk reaches {walk:?}"),
        json!({"start": s.as_str()}),
      );
    }
    checks += 1;
    if graph.contains(s) != matches!(walk, Reach::Module(_)) {
      run.violate(
        format!("contains-disagrees-with-walk@{shape_class}"),
        format!("contains({s}) = {}, the walk reaches {walk:?}", graph.contains(s)),
        json!({"start": s.as_str()}),
      );
    }
    // listing: redirect sources (and slot holders) appear with the walk's result
    if walk != Reach::Nothing {
      checks += 1;
      let listed: Vec<&Reach> = listing
        .iter()
        .filter(|(k, _)| k == s)
        .map(|(_, r)| r)
        .collect();
      if listed.is_empty() {
        run.violate(
          format!("specifiers-omits-entry@{shape_class}"),
          format!("specifiers() does not list {s}, the walk reaches {walk:?}"),
          json!({"start": s.as_str()}),
        );
      } else if listed.iter().any(|r| **r != walk) {
        run.violate(
          format!("specifiers-wrong-result@{shape_class}"),
          format!("specifiers() lists {s} with {listed:?}, the walk reaches {walk:?}"),
          json!({"start": s.as_str()}),
        );
      }
    }
  }
  // dependency resolution with a type preference
  for m in graph.modules() {
    let Some(js) = m.js() else { continue };
    for (text, dep) in &js.dependencies {
      for prefer_types in [false, true] {
        let got = graph
          .resolve_dependency(text, &js.specifier, prefer_types)
          .map(|s| s.to_string());
        let first = if prefer_types {
          dep.get_type().or(dep.get_code())
        } else {
          dep.get_code().or(dep.get_type())
        };
        let want = first.and_then(|f| match walk_reach(graph, f) {
          Reach::Module(t) => {
            if prefer_types
              && let Some(Module::Js(tj)) = graph.get(&url(&t))
              && let Some(td) = &tj.maybe_types_dependency
              && let Some(ts) = td.dependency.maybe_specifier()
              && let Reach::Module(tm) = walk_reach(graph, ts)
            {
              Some(tm)
            } else {
              Some(t)
            }
          }
          _ => None,
        });
        checks += 1;
        if got != want {
          run.violate(
            format!("resolve_dependency-disagrees-with-walk@{}", first.map(|f| cls(f)).unwrap_or_else(|| shape_class.to_string())),
            format!(
              "resolve_dependency({text:?}, {}, prefer_types={prefer_types}) = {:?}, expected {:?}",
              js.specifier,
              got, want
            ),
            json!({"referrer": js.specifier.as_str(), "text": text}),
          );
        }
      }
    }
  }
  checks
}

const TERMINALS: [&str; 4] = ["module", "missing", "error", "external"];

fn body_built(ch: &Ch) -> Run {
  let mut run = Run::default();
  let cyclic = ch.flag("cyclic");
  let max_redirects = *ch.pick("max_redirects", &[10usize, 3]);
  let sched = Sched::new(SchedMode::Immediate);
  let mut loader = ScriptedLoader::new(sched);
  loader.max_redirects = max_redirects;
  let r = |i: usize| format!("https://x/r{i}.js");
  let desc;
  let shape_class;
  let mut extra = vec![];
  if cyclic {
    let len = 1 + ch.shape("cycle_len", 4);
    let tail = ch.shape("tail_len", 4);
    // tail r0..r{tail-1} -> cycle r{tail}..r{tail+len-1} -> r{tail}
    for i in 0..tail + len {
      let to = if i + 1 == tail + len { tail } else { i + 1 };
      loader.add(&r(i), Entry::Redirect(url(&r(to))));
    }
    desc = json!({"shape": "cycle", "cycle_len": len, "tail_len": tail, "max_redirects": max_redirects});
    shape_class = "redirect-cycle";
  } else {
    let len = ch.shape("chain_len", 14);
    let terminal = ch.shape("terminal", TERMINALS.len());
    let types = ch.shape("types_dep", 5); // none / loaded / missing / loaded behind 1 redirect / behind 2 redirects
    for i in 0..len {
      loader.add(&r(i), Entry::Redirect(url(&r(i + 1))));
    }
    match TERMINALS[terminal] {
      "module" => {
        let headers: Vec<(&str, &str)> = match types {
          0 => vec![],
          1 => vec![("x-typescript-types", "https://x/t_types.d.ts")],
          2 => vec![("x-typescript-types", "https://x/t_missing.d.ts")],
          3 => vec![("x-typescript-types", "https://x/t_hop1.d.ts")],
          _ => vec![("x-typescript-types", "https://x/t_hop2.d.ts")],
        };
        loader.add(&r(len), Entry::with_headers(b"export const a = 1;", &headers));
        if matches!(types, 1 | 3 | 4) {
          loader.add("https://x/t_types.d.ts", Entry::text("export declare const a: number;"));
          // the types specifier itself may be a redirect source
          loader.add("https://x/t_hop1.d.ts", Entry::Redirect(url("https://x/t_types.d.ts")));
          loader.add("https://x/t_hop2.d.ts", Entry::Redirect(url("https://x/t_hop1.d.ts")));
        }
      }
      "missing" => {}
      "error" => loader.add(&r(len), Entry::Error("boom".into())),
      "external" => loader.add(&r(len), Entry::External),
      _ => unreachable!(),
    }
    desc = json!({"shape": "chain", "chain_len": len, "terminal": TERMINALS[terminal], "types_dep": types, "max_redirects": max_redirects});
    shape_class = "redirect-chain";
  }
  // a second importer enters the chain in the middle
  let mid = ch.shape("second_entry", 3); // none, r1, r2
  // how the head is imported: plainly; or as a text asset by one module and as
  // a module by its sibling (the module load is deferred behind the asset load)
  let asset_sibling = ch.flag("head_imported_as_text_by_one_module_and_as_module_by_a_sibling");
  let mut root_src = if asset_sibling {
    loader.add_text("https://x/as_text.ts", "import t from \"./r0.js\" with { type: \"text\" };\n");
    loader.add_text("https://x/as_module.ts", "import \"./r0.js\";\n");
    "import \"./as_text.ts\";\nimport \"./as_module.ts\";\n".to_string()
  } else {
    "import \"./r0.js\";\n".to_string()
  };
  if mid > 0 {
    root_src.push_str(&format!("import \"./r{mid}.js\";\n"));
  }
  loader.add_text("https://x/root.ts", &root_src);
  for i in 0..20 {
    extra.push(url(&r(i)));
  }
  let mut graph = ModuleGraph::new(GraphKind::All);
  if let Err(e) = build_graph(
    &mut graph,
    vec![url("https://x/root.ts")],
    &loader,
    BuildCfg {
      unstable_text: true,
      ..Default::default()
    },
    ch,
  ) {
    run.violate("build-did-not-finish", format!("{e:?}"), desc.clone());
  }
  let desc = json!({"redirects": desc, "head_imported_as_text_by_one_module_and_as_module_by_a_sibling": asset_sibling});
  let before = run.violations.len();
  let checks = check_lookups(&graph, &extra, shape_class, &mut run);
  for v in run.violations.iter_mut().skip(before) {
    v.detail = json!({"world": desc, "lookup": v.detail});
  }
  // nothing unfinished either
  let pending = obs(&graph)["pending_slots"].clone();
  if pending.as_array().is_some_and(|a| !a.is_empty()) {
    run.violate(format!("unfinished-entry@{shape_class}"), format!("the built graph holds unfinished entries {pending}"), desc.clone());
  }
  run.evals = checks as u64;
  run.state_key = hash_json(&json!([desc, mid]));
  run.nontrivial = !graph.redirects.is_empty();
  let o = obs(&graph);
  run.outcome_key = hash_json(&json!([o["redirects"], o["slots"].as_object().map(|m| m.keys().collect::<Vec<_>>())]));
  if ch.describe() {
    run.sample = Some(json!({"world": desc, "second_entry": mid, "redirects": o["redirects"], "slots": o["slots"].as_object().map(|m| m.iter().map(|(k, v)| (k.clone(), v.get("error_kind").cloned().unwrap_or(v["kind"].clone()))).collect::<serde_json::Map<_, _>>())}));
  }
  run
}

/// Redirects seeded from a lockfile (`fill_from_lockfile`), with and without a
/// following build.
fn body_seeded(ch: &Ch) -> Run {
  let mut run = Run::default();
  let cyclic = ch.flag("cyclic");
  let sched = Sched::new(SchedMode::Immediate);
  let loader = ScriptedLoader::new(sched);
  let r = |i: usize| format!("https://x/r{i}.js");
  let mut seeded: Vec<(String, String)> = vec![];
  let desc;
  let shape_class;
  if cyclic {
    let len = 1 + ch.shape("cycle_len", 4);
    let tail = ch.shape("tail_len", 4);
    for i in 0..tail + len {
      let to = if i + 1 == tail + len { tail } else { i + 1 };
      if i != to {
        seeded.push((r(i), r(to)));
      }
      // the server agrees with the lockfile
      loader.add(&r(i), Entry::Redirect(url(&r(to))));
    }
    desc = json!({"shape": "seeded-cycle", "cycle_len": len, "tail_len": tail});
    shape_class = "redirect-cycle";
  } else {
    let len = 1 + ch.shape("chain_len", 15);
    for i in 0..len {
      seeded.push((r(i), r(i + 1)));
      loader.add(&r(i), Entry::Redirect(url(&r(i + 1))));
    }
    let terminal = ch.shape("terminal", 2);
    if terminal == 0 {
      loader.add_text(&r(len), "export const a = 1;");
    }
    desc = json!({"shape": "seeded-chain", "chain_len": len, "terminal": (["module", "missing"][terminal])});
    shape_class = "seeded-redirect-chain";
  }
  let do_build = ch.flag("build_after_seed");
  let entry = ch.shape("entry", 3);
  // how the root imports the seeded redirect source: plainly, or in a way the
  // builder rejects up front (bytes import without the unstable flag, source-phase import of a non-wasm file)
  let import_form = ch.shape("import_form", 3);
  loader.add_text(
    "https://x/root.ts",
    &match import_form {
      1 => format!("import b from \"./r{entry}.js\" with {{ type: \"bytes\" }};\n"),
      2 => format!("import source s from \"./r{entry}.js\";\n"),
      _ => format!("import \"./r{entry}.js\";\n"),
    },
  );
  let mut graph = ModuleGraph::new(GraphKind::All);
  graph.fill_from_lockfile(deno_graph::FillFromLockfileOptions {
    redirects: seeded.iter().map(|(a, b)| (a.as_str(), b.as_str())),
    package_specifiers: std::iter::empty(),
  });
  if do_build
    && let Err(e) = build_graph(
      &mut graph,
      vec![url("https://x/root.ts")],
      &loader,
      BuildCfg::default(),
      ch,
    )
  {
    run.violate("build-did-not-finish", format!("{e:?}"), desc.clone());
  }
  let extra: Vec<_> = (0..20).map(|i| url(&r(i))).collect();
  let checks = check_lookups(&graph, &extra, shape_class, &mut run);
  run.evals = checks as u64;
  run.state_key = hash_json(&json!([desc, do_build, entry, import_form]));
  run.nontrivial = do_build;
  let o = obs(&graph);
  run.outcome_key = hash_json(&json!([o["redirects"], o["slots"].as_object().map(|m| m.keys().collect::<Vec<_>>())]));
  if ch.describe() {
    run.sample = Some(json!({"world": desc, "build": do_build, "entry": entry, "import_form": import_form, "redirects": o["redirects"]}));
  }
  run
}

/// Chains that are entered again later (from a dynamic branch, from a second
/// build) while any load call may fail or redirect elsewhere: failures at every
/// position of a chain, under a history.
fn body_fault_histories(ch: &Ch) -> Run {
  use deno_graph::source::LoadResponse;
  let mut run = Run::default();
  let len = 1 + ch.shape("chain_len", 3); // 1..3 hops
  let reenter = ch.shape("dynamic_branch_enters_at", len + 1);
  let second = ch.flag("second_build");
  let r = |i: usize| format!("https://x/r{i}.js");
  let sched = Sched::new(SchedMode::Immediate);
  let loader = ScriptedLoader::new(sched);
  for i in 0..len {
    loader.add(&r(i), Entry::Redirect(url(&r(i + 1))));
  }
  loader.add_text(&r(len), "export const a = 1;");
  loader.add_text("https://x/root.ts", "import \"./r0.js\";\nawait import(\"./dyn.ts\");\n");
  loader.add_text("https://x/dyn.ts", &format!("import \"./r{reenter}.js\";\nimport \"./r0.js\";\n"));
  loader.add_text("https://x/again.ts", &format!("import \"./r0.js\";\nimport \"./r{reenter}.js\";\n"));
  let injected: std::rc::Rc<std::cell::RefCell<Vec<String>>> = Default::default();
  {
    let ch2 = ch.clone();
    let inj = injected.clone();
    *loader.injector.borrow_mut() = Some(Box::new(move |call: &LoadCall, idx: usize| {
      if call.kind != "load" || !call.specifier.path().starts_with("/r") {
        return Answer::Honest;
      }
      // honest / not-found / error / redirect to any member of the chain /
      // an integrity failure (the builder retries once, bypassing the cache) /
      // a module delivered under another final specifier
      let k = ch2.choose("answer", 3 + len + 1 + 2);
      match k {
        j if j == 3 + len + 1 => {
          inj.borrow_mut().push(format!("call {idx} {} -> checksum mismatch", call.specifier));
          Answer::Load(Err(deno_graph::source::LoadError::ChecksumIntegrity(deno_graph::source::ChecksumIntegrityError { actual: "aa".into(), expected: "bb".into() })))
        }
        j if j == 3 + len + 2 => {
          inj.borrow_mut().push(format!("call {idx} {} -> module with final specifier https://x/moved.js", call.specifier));
          Answer::Load(Ok(Some(LoadResponse::Module { content: std::sync::Arc::from(&b"export const moved = 1;"[..]), mtime: None, specifier: url("https://x/moved.js"), maybe_headers: None })))
        }
        0 => Answer::Honest,
        1 => {
          inj.borrow_mut().push(format!("call {idx} {} -> not-found", call.specifier));
          Answer::Load(Ok(None))
        }
        2 => {
          inj.borrow_mut().push(format!("call {idx} {} -> error", call.specifier));
          Answer::Load(Err(other_err("injected failure")))
        }
        j => {
          let to = url(&format!("https://x/r{}.js", j - 3));
          inj.borrow_mut().push(format!("call {idx} {} -> redirect {to}", call.specifier));
          Answer::Load(Ok(Some(LoadResponse::Redirect { specifier: to })))
        }
      }
    }));
  }
  let mut graph = ModuleGraph::new(GraphKind::All);
  let mut res = build_graph(&mut graph, vec![url("https://x/root.ts")], &loader, BuildCfg::default(), ch);
  if second && res.is_ok() {
    res = build_graph(&mut graph, vec![url("https://x/again.ts")], &loader, BuildCfg::default(), ch);
  }
  let log: Vec<String> = loader.log.borrow().iter().map(|c| format!("{} {} -> {}", c.kind, c.specifier, c.answer)).collect();
  let desc = json!({"shape": "chain", "chain_len": len, "dynamic_branch_enters_at": r(reenter), "second_build": second, "injected": *injected.borrow(), "loader_calls": log});
  if let Err(e) = res {
    run.violate("build-did-not-finish", format!("{e:?}"), desc.clone());
  }
  // does the recorded redirect relation contain a cycle?
  let cyclic = graph.redirects.keys().any(|k| {
    let mut seen = BTreeSet::new();
    let mut cur = k;
    while let Some(n) = graph.redirects.get(cur) {
      if !seen.insert(n.clone()) {
        return true;
      }
      cur = n;
    }
    false
  });
  // a specifier that holds an entry of its own *and* is recorded as a redirect source
  let both: Vec<String> = {
    let ser = serde_json::to_value(&graph).unwrap();
    ser["modules"].as_array().map(|a| a.iter().filter_map(|m| m["specifier"].as_str()).filter(|s| graph.redirects.contains_key(&url(s))).map(|s| s.to_string()).collect()).unwrap_or_default()
  };
  let shape_class = if cyclic {
    "redirect-cycle"
  } else if !both.is_empty() {
    "entry-and-redirect-for-one-specifier"
  } else {
    "fault-history"
  };
  let mut extra: Vec<_> = (0..=len).map(|i| url(&r(i))).collect();
  extra.push(url("https://x/moved.js"));
  let before = run.violations.len();
  let checks = check_lookups(&graph, &extra, shape_class, &mut run);
  for v in run.violations.iter_mut().skip(before) {
    v.detail = json!({"world": desc, "lookup": v.detail, "specifiers_with_entry_and_redirect": both});
  }
  run.evals = checks as u64;
  run.state_key = hash_json(&desc);
  run.nontrivial = !injected.borrow().is_empty();
  let o = obs(&graph);
  run.outcome_key = hash_json(&json!([o["redirects"], o["slots"].as_object().map(|m| m.iter().map(|(k, v)| (k.clone(), v.get("error_kind").cloned().unwrap_or(v["kind"].clone()))).collect::<serde_json::Map<_, _>>()), both]));
  run.count("graphs_with_redirect_cycle", cyclic as u64);
  run.count("graphs_with_entry_and_redirect_for_one_specifier", (!both.is_empty()) as u64);
  if ch.describe() {
    run.sample = Some(json!({"world": desc, "redirects": o["redirects"]}));
  }
  run
}

pub fn prop(tier: Tier) -> Prop {
  Prop {
    id: "C14",
    rule: "world = redirect shape (chain length 0..13 x terminal kind x types dependency, or cycle length 1..4 x tail 0..3) x loader max_redirects x second entry point; lockfile-seeded chains 1..15 / cycles with and without a following build. Non-trivial = the built graph records at least one redirect (seeded part: a build ran on top of the seeded redirects). Every lookup (resolve, get, try_get, contains, specifiers, resolve_dependency both preferences) is compared with the walk for every root, dependency target, redirect source and redirect target.".into(),
    assumptions: vec![
      "the walk (ModuleGraph::walk) is the reference, as the property states".into(),
      "chains beyond 15 hops and cycles beyond length 4 are not explored".into(),
      "redirects produced by Loader answers (Redirect responses and differing final specifiers are equivalent to the builder) and by fill_from_lockfile".into(),
    ],
    parts: vec![
      Part {
        name: "built",
        body: Box::new(body_built),
        modes: vec![Mode::Full],
        what: "redirect chains and cycles produced by real builds",
      },
      Part {
        name: "seeded",
        body: Box::new(body_seeded),
        modes: vec![Mode::Full],
        what: "lockfile-seeded redirect chains and cycles",
      },
      Part {
        name: "fault-histories",
        body: Box::new(body_fault_histories),
        modes: match tier {
          Tier::Quick => vec![Mode::Deviations(1), Mode::Deviations(2)],
          Tier::Thorough => vec![Mode::Deviations(2), Mode::Deviations(3), Mode::Deviations(4)],
        },
        what: "chains of 1-3 hops entered again from a dynamic branch and from a second build; every load of a chain member may be answered honestly, with not-found, an error, or a redirect to any chain member (so also cycles); failures at every position under a history",
      },
    ],
    termination_property: true,
    min_outcomes: 8,
  }
}
