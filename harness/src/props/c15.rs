//! C15 — a walk visits exactly the selected reachable set, each entry once,
//! and its error listing is exactly the errors attached to what it visited.

use crate::engine::*;
use crate::env::*;
use crate::obs::*;
use crate::report::*;
use crate::walkref::*;
use crate::world::*;
use deno_graph::GraphKind;
use deno_graph::ModuleGraph;
use deno_graph::ModuleSpecifier;
use serde_json::json;
use std::collections::BTreeSet;

pub fn all_opts() -> Vec<Opts> {
  let mut v = vec![];
  for kind in kind_all() {
    for follow_dynamic in [false, true] {
      for check_js in [CheckJs::True, CheckJs::False, CheckJs::Custom] {
        for prefer_fast_check in [false, true] {
          v.push(Opts {
            kind,
            follow_dynamic,
            check_js,
            prefer_fast_check,
          });
        }
      }
    }
  }
  v
}

/// Compares one real walk (items and errors) with the reference.
pub fn check_walk(
  g: &ModuleGraph,
  view: &SlotView,
  roots: &[ModuleSpecifier],
  o: &Opts,
  run: &mut Run,
  case: &dyn Fn() -> serde_json::Value,
  check_skips: bool,
) -> u64 {
  let mut evals = 0;
  // --- plain walk
  let none = BTreeSet::new();
  let want = reference(g, view, roots, o, &none);
  let mut got: Vec<ModuleSpecifier> = vec![];
  for (s, _) in g.walk(roots.iter(), o.walk_options()) {
    got.push(s.clone());
  }
  evals += 1;
  let got_set: BTreeSet<ModuleSpecifier> = got.iter().cloned().collect();
  let tag = format!("{:?}/fd={}", o.kind, o.follow_dynamic);
  if got_set.len() != got.len() {
    run.violate(
      format!("walk-yields-duplicate@{tag}"),
      format!("walk yielded {} items, {} distinct", got.len(), got_set.len()),
      case(),
    );
  }
  if got_set != want.yielded {
    let extra: Vec<_> = got_set.difference(&want.yielded).map(|s| s.to_string()).collect();
    let lacking: Vec<_> = want.yielded.difference(&got_set).map(|s| s.to_string()).collect();
    run.violate(
      format!(
        "walk-set-differs@{tag}:{}",
        if extra.is_empty() { "lacks" } else if lacking.is_empty() { "extra" } else { "both" }
      ),
      format!("walk {o:?} from {:?}: yields extra {extra:?}, lacks {lacking:?}", roots.iter().map(|r| r.as_str()).collect::<Vec<_>>()),
      case(),
    );
  }
  // --- error listing
  let got_err: BTreeSet<String> = g
    .walk(roots.iter(), o.walk_options())
    .errors()
    .map(|e| error_key(&e))
    .collect();
  evals += 1;
  if got_err != want.errors {
    let extra: Vec<_> = got_err.difference(&want.errors).cloned().collect();
    let lacking: Vec<_> = want.errors.difference(&got_err).cloned().collect();
    // the recorded defect: a Missing entry nobody imports (a root or a
    // configured import) is dropped when dynamic imports are followed
    // ... "nobody imports": no dependency of any visited module leads to it
    let imported_by_a_visited_module = |u: &ModuleSpecifier| {
      want.yielded.iter().any(|m| {
        g.get(m).is_some_and(|m| {
          // (through an edge the walk follows under this graph kind)
          let code = o.kind != GraphKind::TypesOnly;
          // (the types side of an import is only reported in place where types are checked)
          let types = o.kind != GraphKind::CodeOnly && is_checkable(o, m.specifier(), m.media_type());
          m.dependencies().values().any(|d| {
            (code && d.get_code().is_some_and(|t| g.resolve(t) == u)) || (types && d.get_type().is_some_and(|t| g.resolve(t) == u))
          })
          // (a module's own types dependency - @ts-self-types, x-typescript-types - is no import site either: part of the recorded finding)
        })
      })
    };
    let only_unreferenced_missing = extra.is_empty()
      && o.follow_dynamic
      && lacking.iter().all(|k| {
        k.strip_prefix("slot:").is_some_and(|s| {
          let u = url(s);
          matches!(g.try_get(&u), Err(e) if matches!(e.as_kind(), deno_graph::ModuleErrorKind::Missing { .. })) && !imported_by_a_visited_module(&u)
        })
      });
    run.violate(
      if only_unreferenced_missing {
        "missing-entry-without-referrer@follow_dynamic".to_string()
      } else {
        format!(
          "walk-errors-differ@{tag}:{}",
          if extra.is_empty() { "lacks" } else if lacking.is_empty() { "extra" } else { "both" }
        )
      },
      format!("errors() of walk {o:?} from {:?}: extra {extra:?}, lacks {lacking:?}", roots.iter().map(|r| r.as_str()).collect::<Vec<_>>()),
      case(),
    );
  }
  // --- skip_previous_dependencies after each single entry, and after all
  if check_skips {
    let mut skip_sets: Vec<BTreeSet<ModuleSpecifier>> =
      got_set.iter().map(|s| [s.clone()].into_iter().collect()).collect();
    skip_sets.push(got_set.clone());
    for skip in skip_sets {
      let want = reference(g, view, roots, o, &skip);
      let mut it = g.walk(roots.iter(), o.walk_options());
      let mut got = BTreeSet::new();
      let mut n = 0;
      while let Some((s, _)) = it.next() {
        n += 1;
        got.insert(s.clone());
        if skip.contains(s) {
          it.skip_previous_dependencies();
        }
      }
      evals += 1;
      if n != got.len() || got != want.yielded {
        run.violate(
          format!("walk-with-skip-differs@{tag}"),
          format!(
            "skipping dependencies of {:?}: walk yields {:?}, reference {:?}",
            skip.iter().map(|s| s.as_str()).collect::<Vec<_>>(),
            got.iter().map(|s| s.as_str()).collect::<Vec<_>>(),
            want.yielded.iter().map(|s| s.as_str()).collect::<Vec<_>>()
          ),
          case(),
        );
      }
    }
  }
  evals
}

/// option sets without the dimensions that cannot matter for a world space
/// (no JavaScript => check_js is irrelevant; no fast-check modules =>
/// prefer_fast_check is irrelevant)
pub fn reduced_opts(with_check_js: bool) -> Vec<Opts> {
  all_opts()
    .into_iter()
    .filter(|o| !o.prefer_fast_check && (with_check_js || matches!(o.check_js, CheckJs::True)))
    .collect()
}

fn body(space: Space, build_kinds: &'static [GraphKind], opts: Vec<Opts>) -> impl Fn(&Ch) -> Run + Sync + Send {
  move |ch: &Ch| {
    let mut run = Run::default();
    let n_specs = space.n_specs;
    let world = space.generate(ch, 2, None);
    let with_import = ch.choose("configured_type_import", 2) == 1;
    // a graph built with skip_dynamic_deps records dynamic dependencies whose
    // targets it never loaded: a walk that follows them meets absent entries
    // (only in the deviation-bounded parts: the complete core enumeration would double)
    let skip_dynamic = opts.len() == 36 && ch.choose("graph_built_with_skip_dynamic_deps", 2) == 1;
    let mut outcomes = vec![];
    for build_kind in build_kinds {
      let sched = Sched::new(SchedMode::Immediate);
      let loader = ScriptedLoader::new(sched);
      world.install(&loader);
      let mut g = ModuleGraph::new(*build_kind);
      let imports = if with_import {
        vec![deno_graph::ReferrerImports {
          referrer: url(&format!("{}deno.json", world.base())),
          imports: vec![format!("./{}", world.kinds[n_specs - 1].file_name(n_specs - 1))],
        }]
      } else {
        vec![]
      };
      if build_graph(
        &mut g,
        world.roots(),
        &loader,
        BuildCfg {
          unstable_bytes: true,
          unstable_text: true,
          skip_dynamic_deps: skip_dynamic,
          imports,
          ..Default::default()
        },
        ch,
      )
      .is_err()
      {
        run.violate("build-did-not-finish", "deadlock", world.describe());
        continue;
      }
      let view = SlotView::new(&g);
      // roots: every subset of <= 2 of the world's specifiers (redirect
      // sources, error entries and absent specifiers included)
      let specs: Vec<ModuleSpecifier> = (0..n_specs).map(|i| world.url(i)).collect();
      let mut root_sets: Vec<Vec<ModuleSpecifier>> = vec![];
      for i in 0..specs.len() {
        root_sets.push(vec![specs[i].clone()]);
        for j in i + 1..specs.len() {
          root_sets.push(vec![specs[i].clone(), specs[j].clone()]);
        }
      }
      for roots in &root_sets {
        for o in opts.iter().copied() {
          let case = || {
            json!({"world": world.describe(), "build_kind": format!("{build_kind:?}"), "configured_type_import": with_import, "built_with_skip_dynamic_deps": skip_dynamic,
              "walk_roots": roots.iter().map(|r| r.as_str()).collect::<Vec<_>>(), "options": format!("{o:?}")})
          };
          // skips are only exercised for one check_js setting to bound the cost
          let skips = matches!(o.check_js, CheckJs::True) && !o.prefer_fast_check;
          run.evals += check_walk(&g, &view, roots, &o, &mut run, &case, skips);
        }
      }
      outcomes.push(hash_json(&obs(&g)["slots"]));
    }
    run.state_key = hash_of(&(world.key(), with_import, skip_dynamic));
    run.nontrivial = world.edges.len() >= 2 || world.edges.iter().any(|e| e.form != Form::Import);
    run.outcome_key = hash_of(&outcomes);
    if ch.describe() {
      run.sample = Some(json!({"world": world.describe(), "configured_type_import": with_import}));
    }
    run
  }
}

/// Graphs that carry fast-check modules: a generated registry package (and its
/// dependency package) after `build_fast_check_type_graph`.
/// A generated package graph after fast check, with the root sets to walk from.
pub fn fast_check_graph(ch: &Ch, slots: usize) -> Option<(crate::fc::FcResult, crate::fcgen::GenPkg, Vec<Vec<ModuleSpecifier>>)> {
    let mut g = crate::fcgen::gen_package(ch, slots);
    // an import that only function bodies use: fast check drops it, so the
    // failure behind it belongs to the plain walk only
    let private_import = ch.choose("body_only_import", 4);
    let extra = match private_import {
      1 => "import { gone } from \"./gone.ts\";\nfunction usesGone() { return gone; }\n",
      2 => "import { nowhere } from \"unmapped-bare-specifier\";\nfunction usesNowhere() { return nowhere; }\n",
      3 => "async function lazy() { return await import(\"./gone_dynamically.ts\"); }\n",
      _ => "",
    };
    g.pkg.files[0].1 = format!("{extra}{}", g.pkg.files[0].1);
    let dep_is_root = ch.choose("root_imports_dependency_package_too", 2) == 1;
    let r = crate::fc::fast_check_rooted(&[g.pkg.clone(), g.dep.clone()], if dep_is_root { 2 } else { 1 }, None, ch)?;
    let mut root_sets: Vec<Vec<ModuleSpecifier>> = vec![r.graph.roots.iter().cloned().collect()];
    for (_, e) in &g.pkg.exports {
      root_sets.push(vec![url(&g.pkg.url(e.trim_start_matches('.')))]);
    }
    root_sets.push(vec![url(&g.dep.url("/mod.ts"))]);
    root_sets.push(vec![url(&g.pkg.url("/barrel.ts")), url(&g.pkg.url("/c.ts"))]);
    Some((r, g, root_sets))
}

fn body_fast_check(slots: usize) -> impl Fn(&Ch) -> Run + Sync + Send {
  move |ch: &Ch| {
    let mut run = Run::default();
    let Some((r, g, root_sets)) = fast_check_graph(ch, slots) else {
      run.violate("build-did-not-finish", "deadlock", json!({}));
      return run;
    };
    let dep_is_root = r.graph.roots.len() > 1 || root_sets[0].len() > 1;
    let graph = &r.graph;
    let view = SlotView::new(graph);
    let with_fc = r.modules.values().filter(|(_, s)| matches!(s, crate::fc::FcSlot::Module { .. })).count();
    for roots in &root_sets {
      for o in all_opts() {
        let case = || {
          json!({"package": g.pkg.files.iter().map(|(p, s)| json!([p, s])).collect::<Vec<_>>(), "exports": g.pkg.exports, "workspace_member": g.pkg.workspace,
            "modules_with_fast_check_output": with_fc,
            "walk_roots": roots.iter().map(|r| r.as_str()).collect::<Vec<_>>(), "options": format!("{o:?}")})
        };
        let skips = matches!(o.check_js, CheckJs::True);
        run.evals += check_walk(graph, &view, roots, &o, &mut run, &case, skips);
      }
    }
    // the fast-check walk must actually differ from the plain one somewhere, or the part is vacuous
    let plain: BTreeSet<ModuleSpecifier> = graph.walk(graph.roots.iter(), Opts { kind: GraphKind::TypesOnly, follow_dynamic: true, check_js: CheckJs::True, prefer_fast_check: false }.walk_options()).map(|(s, _)| s.clone()).collect();
    let fc: BTreeSet<ModuleSpecifier> = graph.walk(graph.roots.iter(), Opts { kind: GraphKind::TypesOnly, follow_dynamic: true, check_js: CheckJs::True, prefer_fast_check: true }.walk_options()).map(|(s, _)| s.clone()).collect();
    run.count("graphs_with_fast_check_modules", (with_fc > 0) as u64);
    run.count("graphs_where_the_fast_check_walk_visits_fewer_modules", (fc.len() < plain.len()) as u64);
    run.state_key = hash_of(&format!("{:?}{:?}{}{}", g.pkg.files, g.pkg.exports, g.pkg.workspace, dep_is_root));
    run.nontrivial = with_fc > 0;
    run.outcome_key = hash_of(&(plain.len(), fc.len(), with_fc));
    if ch.describe() {
      run.sample = Some(json!({"package": g.pkg.files.iter().map(|(p, s)| json!([p, s])).collect::<Vec<_>>(), "modules_with_fast_check_output": with_fc, "plain_types_walk": plain.len(), "fast_check_walk": fc.len()}));
    }
    run
  }
}

/// Graphs with a WebAssembly module that has imports of its own.
fn body_wasm(ch: &Ch) -> Run {
  let mut run = Run::default();
  let kind = *ch.pick("graph_kind", &[GraphKind::All, GraphKind::CodeOnly, GraphKind::TypesOnly]);
  let sched = Sched::new(SchedMode::Immediate);
  let loader = ScriptedLoader::new(sched);
  let (w, root) = crate::props::c01::wasm_world(ch, &loader);
  let mut g = ModuleGraph::new(kind);
  if build_graph(&mut g, vec![root.clone()], &loader, BuildCfg::default(), ch).is_err() {
    run.violate("build-did-not-finish", "deadlock", w.describe.clone());
    return run;
  }
  let view = SlotView::new(&g);
  let root_sets = vec![vec![root.clone()], vec![url("https://x/m.wasm")], vec![url("https://x/a.ts"), url("https://x/m.wasm")], vec![url("https://x/missing.ts")]];
  for roots in &root_sets {
    for o in all_opts() {
      let case = || json!({"world": w.describe, "build_kind": format!("{kind:?}"), "walk_roots": roots.iter().map(|r| r.as_str()).collect::<Vec<_>>(), "options": format!("{o:?}")});
      let skips = matches!(o.check_js, CheckJs::True);
      run.evals += check_walk(&g, &view, roots, &o, &mut run, &case, skips);
    }
  }
  run.state_key = hash_of(&(format!("{:?}{kind:?}", w.imports), w.via_ts));
  run.nontrivial = !w.imports.is_empty();
  run.outcome_key = hash_json(&obs(&g)["slots"]);
  if ch.describe() {
    run.sample = Some(w.describe.clone());
  }
  run
}

pub fn prop(tier: Tier) -> Prop {
  static ALL_ONLY: [GraphKind; 1] = [GraphKind::All];
  static ALL_KINDS: [GraphKind; 3] = [GraphKind::All, GraphKind::CodeOnly, GraphKind::TypesOnly];
  let parts = match tier {
    Tier::Quick => vec![Part {
      name: "worlds",
      body: Box::new(body(Space::generic(3, 2), &ALL_ONLY, all_opts())),
      modes: vec![Mode::Deviations(2), Mode::Deviations(3)],
      what: "3-specifier worlds, <= 2 edges, graphs built with kind All; 36 walk option sets x 6 root sets x skip sets",
    }],
    Tier::Thorough => vec![
      Part {
        name: "worlds",
        body: Box::new(body(Space::generic(3, 3), &ALL_KINDS, all_opts())),
        modes: vec![Mode::Deviations(3), Mode::Deviations(4)],
        what: "3-specifier worlds, <= 3 edges, graphs built with all three kinds",
      },
      Part {
        name: "worlds4",
        body: Box::new(body(Space::generic(4, 3), &ALL_ONLY, all_opts())),
        modes: vec![Mode::Deviations(2), Mode::Deviations(3)],
        what: "4-specifier worlds, <= 3 edges",
      },
    ],
  };
  let mut parts = parts;
  parts.push(Part {
    name: "chains",
    body: Box::new(body(Space::chains(), &ALL_KINDS, reduced_opts(true))),
    modes: vec![Mode::Full],
    what: "worlds around a redirect chain of 1-3 hops whose middle hops nothing imports directly (head imported statically / dynamically / type-only, a second importer entering at any hop, terminal TypeScript / JavaScript / missing / failing, optional leaf), enumerated completely; graphs built with all three kinds, walked from every root set of <= 2 specifiers (every hop included)",
  });
  parts.push(Part {
    name: "wasm-imports",
    body: Box::new(body_wasm),
    modes: vec![Mode::Full],
    what: "graphs with a generated WebAssembly module that imports functions / memories / tables / globals / tags from present and absent specifiers, built with each graph kind, walked under all 36 option sets from 4 root sets",
  });
  parts.push(Part {
    name: "fast-check",
    body: Box::new(body_fast_check(2)),
    modes: match tier {
      Tier::Quick => vec![Mode::Deviations(1), Mode::Deviations(2)],
      Tier::Thorough => vec![Mode::Deviations(2), Mode::Deviations(3)],
    },
    what: "graphs with fast-check modules (generated registry / workspace package + dependency package after build_fast_check_type_graph): all 36 option sets incl. prefer_fast_check_graph from the graph roots, every entrypoint, the dependency package and an inner pair; skips for check_js=True",
  });
  match tier {
    Tier::Quick => parts.push(Part {
      name: "core",
      body: Box::new(body(Space::core(3, 3, CORE_KINDS_QUICK), &ALL_ONLY, reduced_opts(false))),
      modes: vec![Mode::Full],
      what: "every world over the core alphabet, enumerated completely: 3 specifiers (root TypeScript, others TypeScript or missing), <= 3 edges from {import, dynamic import, import type}",
    }),
    Tier::Thorough => parts.push(Part {
      name: "core",
      body: Box::new(body(Space::core(3, 3, CORE_KINDS), &ALL_ONLY, reduced_opts(true))),
      modes: vec![Mode::Full],
      what: "every world over the core alphabet, enumerated completely: 3 specifiers (kinds TypeScript / missing / JavaScript / JSON / redirect), <= 3 edges from {import, dynamic import, import type}",
    }),
  }
  Prop {
    id: "C15",
    rule: "state = (world, configured type import yes/no); per state the built graph(s) are walked from every root set of <= 2 world specifiers (incl. redirect sources, error entries, absent ones) under all 36 option sets (3 kinds x follow_dynamic x check_js True/False/Custom x prefer_fast_check) and with skip_previous_dependencies() after each single yielded entry and after every entry; the yielded set (no duplicates) and the keyed error listing are compared with a set-based reference fixpoint over the graph's public data. Non-trivial = world with >= 2 edges or a non-default import form.".into(),
    assumptions: vec![
      "reference reachability is computed from Module::dependencies(), the fast_check field of JS modules, maybe_types_dependency, redirects and imports as exposed by the public API; the slot table is read from the serialised graph".into(),
      "errors are compared as keys (slot:<specifier>, code-res/type-res:<referrer range>) - duplicates of one key collapse".into(),
      "generic worlds carry no fast-check modules (prefer_fast_check then equals the plain walk); graphs with fast-check modules are walked in the part fast-check (packages of the C09-C11 generator, 2 declaration slots)".into(),
    ],
    parts,
    termination_property: false,
    min_outcomes: 8,
  }
}
