//! C16 — symbol tables are well-formed trees and export resolution follows
//! the ES rules (own names win, `default` is not re-exported by `export *`,
//! cycles terminate).

use crate::engine::*;
use crate::env::*;
use crate::fcgen::*;
use crate::obs::*;
use crate::report::*;
use deno_graph::GraphKind;
use deno_graph::ModuleGraph;
use deno_graph::symbols::ModuleInfoRef;
use deno_graph::symbols::RootSymbol;
use deno_graph::symbols::Symbol;
use deno_graph::symbols::SymbolId;
use serde_json::Value;
use serde_json::json;
use std::collections::BTreeMap;
use std::collections::BTreeSet;
use std::collections::HashSet;

/// Tree-shape and bookkeeping checks for one module's symbol table.
fn check_module(module: ModuleInfoRef, root: &RootSymbol, run: &mut Run, case: &dyn Fn(Value) -> Value) -> u64 {
  let mut evals = 0;
  let text_len = module.text().len();
  let spec = module.specifier().to_string();
  let exists = |id: SymbolId| module.symbol(id).is_some();
  let mut all: Vec<&Symbol> = module.symbols().collect();
  all.sort_by_key(|s| format!("{:?}", s.symbol_id()));
  for symbol in &all {
    evals += 1;
    // all declarations carry the symbol's name
    let name = symbol.maybe_name();
    for d in symbol.decls() {
      if d.maybe_name() != name {
        run.violate(
          "declaration-name-differs-from-symbol-name",
          format!("{spec}: symbol {:?} named {:?} has a declaration named {:?}", symbol.symbol_id(), name, d.maybe_name()),
          case(json!({})),
        );
      }
      // ... and a range inside the module text
      let r = d.range;
      let start = module.text_info().range().start;
      let lo = r.start - start;
      let hi = r.end - start;
      if lo > hi || hi > text_len {
        run.violate(
          "declaration-range-outside-module-text",
          format!("{spec}: symbol {:?} declaration range {lo}..{hi}, text has {text_len} bytes", symbol.symbol_id()),
          case(json!({})),
        );
      }
    }
    // every export / child / member id exists
    for (n, id) in symbol.exports() {
      if !exists(*id) {
        run.violate("export-id-does-not-exist", format!("{spec}: export {n:?} of {:?} -> {id:?}", symbol.symbol_id()), case(json!({})));
      }
    }
    for id in symbol.child_ids().chain(symbol.members().iter().copied()) {
      if !exists(id) {
        run.violate("child-or-member-id-does-not-exist", format!("{spec}: {:?} -> {id:?}", symbol.symbol_id()), case(json!({})));
      }
    }
    // parent <-> child consistency
    if let Some(pid) = symbol.parent_id() {
      let Some(parent) = module.symbol(pid) else {
        run.violate("parent-id-does-not-exist", format!("{spec}: {:?} -> {pid:?}", symbol.symbol_id()), case(json!({})));
        continue;
      };
      let has_child = parent.child_ids().any(|id| id == symbol.symbol_id());
      let has_member = parent.members().iter().any(|id| *id == symbol.symbol_id());
      let is_definition = symbol.decls().iter().all(|d| d.kind.is_definition());
      if is_definition && !has_child && !has_member {
        run.violate(
          "symbol-not-reachable-from-its-parent",
          format!("{spec}: {:?} ({:?}) names parent {:?} ({:?}), which lists it neither as child nor as member", symbol.symbol_id(), name, pid, parent.maybe_name()),
          case(json!({})),
        );
      }
      if has_child && has_member {
        run.violate(
          "symbol-is-both-child-and-member",
          format!("{spec}: {:?} ({:?}) of parent {:?}", symbol.symbol_id(), name, pid),
          case(json!({})),
        );
      }
    } else if symbol.symbol_id() != module.module_symbol().symbol_id() {
      run.violate("non-root-symbol-without-parent", format!("{spec}: {:?} ({:?})", symbol.symbol_id(), name), case(json!({})));
    }
    // the chain of parents ends at the module symbol
    let mut cur = *symbol;
    let mut steps = 0;
    while let Some(pid) = cur.parent_id() {
      let Some(p) = module.symbol(pid) else { break };
      cur = p;
      steps += 1;
      if steps > all.len() + 1 {
        run.violate("parent-chain-does-not-reach-the-module", format!("{spec}: from {:?}", symbol.symbol_id()), case(json!({})));
        break;
      }
    }
    if steps <= all.len() + 1 && cur.symbol_id() != module.module_symbol().symbol_id() {
      run.violate("parent-chain-does-not-reach-the-module", format!("{spec}: from {:?} ends at {:?}", symbol.symbol_id(), cur.symbol_id()), case(json!({})));
    }
  }
  // a tree: walking children and members from the module symbol meets every symbol at most once,
  // and each child/member link agrees with the child's parent pointer
  fn walk(module: ModuleInfoRef, s: &Symbol, visited: &mut HashSet<SymbolId>, problems: &mut Vec<String>) {
    if !visited.insert(s.symbol_id()) {
      problems.push(format!("symbol {:?} ({:?}) is reachable along more than one path", s.symbol_id(), s.maybe_name()));
      return;
    }
    for id in s.child_ids().chain(s.members().iter().copied()) {
      if let Some(c) = module.symbol(id) {
        if c.parent_id() != Some(s.symbol_id()) {
          problems.push(format!(
            "symbol {:?} ({:?}) is listed under {:?} ({:?}) but names {:?} as its parent",
            c.symbol_id(),
            c.maybe_name(),
            s.symbol_id(),
            s.maybe_name(),
            c.parent_id()
          ));
        }
        walk(module, c, visited, problems);
      }
    }
  }
  let mut problems = vec![];
  walk(module, module.module_symbol(), &mut HashSet::new(), &mut problems);
  for p in problems {
    run.violate(
      if p.contains("more than one path") { "symbol-on-multiple-paths" } else { "child-link-disagrees-with-parent-pointer" },
      format!("{spec}: {p}"),
      case(json!({})),
    );
  }
  // go-to-definition from any symbol terminates (watchdog) and yields only
  // definitions or explicit unresolved markers
  for symbol in &all {
    let n = root.go_to_definitions_or_unresolveds(module, symbol).count();
    evals += 1;
    let _ = n;
  }
  evals
}

fn build_files(files: &[(String, String)], roots: &[String], ch: &Ch) -> Option<(ModuleGraph, deno_graph::ast::CapturingModuleAnalyzer)> {
  let sched = Sched::new(SchedMode::Immediate);
  let loader = ScriptedLoader::new(sched);
  for (u, s) in files {
    // a "source" of the form `=> <url>` stands for a loader redirect
    match s.strip_prefix("=> ") {
      Some(to) => loader.add(u, Entry::Redirect(url(to))),
      None => loader.add_text(u, s),
    }
  }
  let analyzer = deno_graph::ast::CapturingModuleAnalyzer::default();
  let mut graph = ModuleGraph::new(GraphKind::All);
  build_graph(
    &mut graph,
    roots.iter().map(|r| url(r)).collect(),
    &loader,
    BuildCfg {
      module_analyzer: Some(&analyzer),
      ..Default::default()
    },
    ch,
  )
  .ok()?;
  Some((graph, analyzer))
}

fn body_trees(slots: usize) -> impl Fn(&Ch) -> Run + Sync + Send {
  move |ch: &Ch| {
    let mut run = Run::default();
    let g = gen_package(ch, slots);
    let files: Vec<(String, String)> = g.pkg.files.iter().map(|(p, s)| (format!("file:///pkg{p}"), s.replace("jsr:@s/b@1", "./dep.ts"))).collect();
    let mut files = files;
    files.push(("file:///pkg/dep.ts".to_string(), DEP_SRC.to_string()));
    let roots: Vec<String> = files.iter().map(|(u, _)| u.clone()).collect();
    let Some((graph, analyzer)) = build_files(&files, &roots, ch) else {
      run.violate("build-did-not-finish", "deadlock", json!({}));
      return run;
    };
    let root = RootSymbol::new(&graph, &analyzer);
    let case = |extra: Value| json!({"sources": files, "declarations": g.decl_names, "detail": extra});
    let mut n_symbols = 0;
    for (u, _) in &files {
      let Some(module) = root.module_from_specifier(&url(u)) else { continue };
      n_symbols += module.symbols().count();
      run.evals += check_module(module, &root, &mut run, &case);
      // the exports of a module are computable and name existing symbols
      let ex = module.exports(&root);
      for (name, e) in &ex.resolved {
        let re = e.as_resolved_export();
        if re.module.symbol(re.symbol_id).is_none() {
          run.violate("resolved-export-names-missing-symbol", format!("{u}: export {name:?}"), case(json!({})));
        }
      }
    }
    run.state_key = hash_of(&format!("{files:?}"));
    run.nontrivial = n_symbols > 12;
    run.outcome_key = hash_of(&n_symbols);
    if ch.describe() {
      run.sample = Some(case(json!({"symbols": n_symbols})));
    }
    run
  }
}

const OWN: &[&[&str]] = &[&[], &["a"], &["b"], &["a", "default"]];

/// All star re-export graphs over n modules.
fn body_stars(n: usize) -> impl Fn(&Ch) -> Run + Sync + Send {
  move |ch: &Ch| {
    let mut run = Run::default();
    let mut own: Vec<&[&str]> = vec![];
    let mut edges: Vec<Vec<usize>> = vec![vec![]; n];
    for _ in 0..n {
      own.push(OWN[ch.shape("own_exports", OWN.len())]);
    }
    for i in 0..n {
      for j in 0..n {
        if i != j && ch.flag("star_edge") {
          edges[i].push(j);
        }
      }
    }
    // how the star edges are spelled: directly, through a specifier the loader
    // redirects, or (additionally) as a namespace re-export
    // (3: the edge carries a @ts-types pragma - for the symbol tables, which
    // describe types, its star re-export is the declaration file's)
    // (4: the edge goes through a JavaScript module that declares a types
    // module which cannot be loaded - the JavaScript module itself is then what
    // the symbol tables describe, and the names flow through it)
    let spelling = ch.shape("star_edge_spelling", 5);
    let mut files = vec![];
    let mut ns_names: Vec<Vec<String>> = vec![vec![]; n];
    for i in 0..n {
      let mut s = String::new();
      for j in &edges[i] {
        match spelling {
          1 => s.push_str(&format!("export * from \"./r{j}.ts\";\n")),
          2 => {
            s.push_str(&format!("export * from \"./m{j}.ts\";\nexport * as ns{j} from \"./m{j}.ts\";\n"));
            ns_names[i].push(format!("ns{j}"));
          }
          3 => s.push_str(&format!("// @ts-types=\"./t{j}.d.ts\"\nexport * from \"./m{j}.ts\";\n")),
          4 => s.push_str(&format!("export * from \"./j{j}.js\";\n")),
          _ => s.push_str(&format!("export * from \"./m{j}.ts\";\n")),
        }
      }
      for name in own[i] {
        if *name == "default" {
          s.push_str(&format!("export default {i};\n"));
        } else {
          s.push_str(&format!("export const {name}: number = {i};\n"));
        }
      }
      files.push((format!("https://s/m{i}.ts"), s));
    }
    let roots: Vec<String> = files.iter().map(|(u, _)| u.clone()).collect();
    if spelling == 1 {
      for j in 0..n {
        files.push((format!("https://s/r{j}.ts"), format!("=> https://s/m{j}.ts")));
      }
    }
    if spelling == 4 {
      for j in 0..n {
        files.push((format!("https://s/j{j}.js"), format!("// @ts-self-types=\"./gone{j}.d.ts\"\nexport * from \"./m{j}.ts\";\n")));
      }
    }
    if spelling == 3 {
      for j in 0..n {
        files.push((format!("https://s/t{j}.d.ts"), format!("export declare const typed{j}: number;\nexport default {j};\n")));
      }
    }
    let Some((graph, analyzer)) = build_files(&files, &roots, ch) else {
      run.violate("build-did-not-finish", "deadlock", json!({}));
      return run;
    };
    let root = RootSymbol::new(&graph, &analyzer);
    // reference: least fixpoint of own ∪ ⋃ (star-target exports \ {default})
    let mut names: Vec<BTreeSet<String>> = own.iter().map(|o| o.iter().map(|s| s.to_string()).collect()).collect();
    for i in 0..n {
      // `export * as ns from` is an own (named) export of the re-exporting module
      names[i].extend(ns_names[i].iter().cloned());
    }
    loop {
      let mut changed = false;
      for i in 0..n {
        for j in &edges[i] {
          let add: Vec<String> = if spelling == 3 {
            vec![format!("typed{j}")]
          } else {
            names[*j].iter().filter(|x| *x != "default").cloned().collect()
          };
          for a in add {
            changed |= names[i].insert(a);
          }
        }
      }
      if !changed {
        break;
      }
    }
    let case = |extra: Value| json!({"sources": files, "detail": extra});
    let mut outcome = vec![];
    for i in 0..n {
      let u = url(&files[i].0);
      let Some(module) = root.module_from_specifier(&u) else {
        run.violate("module-has-no-symbol-table", format!("{u}"), case(json!({})));
        continue;
      };
      run.evals += 1;
      let ex = module.exports(&root);
      let got: BTreeSet<String> = ex.resolved.keys().cloned().collect();
      outcome.push(hash_of(&got));
      if got != names[i] {
        let missing: Vec<_> = names[i].difference(&got).collect();
        let extra: Vec<_> = got.difference(&names[i]).collect();
        run.violate(
          format!(
            "resolved-exports-differ-from-es-rules:{}",
            if extra.contains(&&"default".to_string()) { "default-re-exported-by-star" } else if extra.is_empty() { "missing" } else if missing.is_empty() { "extra" } else { "both" }
          ),
          format!("{u}: resolved exports {got:?}, the ES rules give {:?}", names[i]),
          case(json!({})),
        );
      }
      // own names take precedence over star re-exports
      for name in own[i] {
        if let Some(e) = ex.resolved.get(*name) {
          let re = e.as_resolved_export();
          let direct = matches!(e, deno_graph::symbols::ResolvedExportOrReExportAllPath::Export(_));
          if !direct || re.module.specifier() != &u {
            run.violate(
              "own-export-does-not-take-precedence",
              format!("{u}: own export {name:?} resolves into {}", re.module.specifier()),
              case(json!({})),
            );
          }
        }
      }
      run.evals += check_module(module, &root, &mut run, &case);
    }
    run.state_key = hash_of(&format!("{own:?}{edges:?}{spelling}"));
    run.nontrivial = edges.iter().map(|e| e.len()).sum::<usize>() >= 2;
    run.outcome_key = hash_of(&outcome);
    if ch.describe() {
      run.sample = Some(case(json!({"expected_exports": names})));
    }
    run
  }
}

/// Child-process entry (`dgmc c16-probe <json>`): builds the given files,
/// prints each module's resolved export names and runs go-to-definition from
/// every symbol. Runs in a process of its own because unbounded recursion in
/// the subject ends in a stack overflow, which no in-process guard survives.
pub fn probe_main(arg: &str) -> i32 {
  let v: Value = serde_json::from_str(arg).expect("probe argument");
  let files: Vec<(String, String)> = v["files"].as_array().unwrap().iter().map(|f| (f[0].as_str().unwrap().to_string(), f[1].as_str().unwrap().to_string())).collect();
  let roots: Vec<String> = v["roots"].as_array().unwrap().iter().map(|r| r.as_str().unwrap().to_string()).collect();
  let ch = Ch::new(vec![], false);
  let Some((graph, analyzer)) = build_files(&files, &roots, &ch) else {
    println!("{}", json!({"error": "build did not finish"}));
    return 0;
  };
  let root = RootSymbol::new(&graph, &analyzer);
  let mut out = serde_json::Map::new();
  for r in &roots {
    let u = url(r);
    let Some(module) = root.module_from_specifier(&u) else {
      out.insert(r.clone(), json!({"missing": true}));
      continue;
    };
    let ex = module.exports(&root);
    let names: Vec<String> = ex.resolved.keys().cloned().collect();
    let mut definitions = 0usize;
    let mut all: Vec<&Symbol> = module.symbols().collect();
    all.sort_by_key(|s| format!("{:?}", s.symbol_id()));
    for symbol in &all {
      definitions += root.go_to_definitions_or_unresolveds(module, symbol).count();
    }
    // ... and from what each exported name lands on
    for e in ex.resolved.values() {
      let re = e.as_resolved_export();
      if let Some(sym) = re.module.symbol(re.symbol_id) {
        definitions += root.go_to_definitions_or_unresolveds(re.module, sym).count();
      }
    }
    out.insert(r.clone(), json!({"exports": names, "definitions_or_unresolveds": definitions}));
  }
  println!("{}", Value::Object(out));
  0
}

/// Re-export graphs that mix `export *` with named re-exports (directly and
/// through an import), cycles included; every world runs in a child process.
fn body_named_cycles(ch: &Ch) -> Run {
  let mut run = Run::default();
  const N: usize = 3;
  // per module: 0 nothing, 1 own x, 2 `export { x } from`, 3 `import { x } from; export { x }`, 4 `export * from`, 5 own x + `export * from`
  const SHAPES: [&str; 6] = ["nothing", "own x", "export { x } from", "import { x } from + export { x }", "export * from", "own x + export * from"];
  let mut shape = [0usize; N];
  let mut target = [0usize; N];
  for i in 0..N {
    shape[i] = ch.shape("module_shape", SHAPES.len());
    if shape[i] >= 2 {
      let others: Vec<usize> = (0..N).filter(|j| *j != i).collect();
      target[i] = others[ch.shape("edge_target", others.len())];
    }
  }
  let mut files = vec![];
  for i in 0..N {
    let j = target[i];
    let src = match shape[i] {
      0 => "export const other: number = 0;\n".to_string(),
      1 => format!("export const x: number = {i};\n"),
      2 => format!("export {{ x }} from \"./m{j}.ts\";\n"),
      3 => format!("import {{ x }} from \"./m{j}.ts\";\nexport {{ x }};\n"),
      4 => format!("export * from \"./m{j}.ts\";\n"),
      _ => format!("export const x: number = {i};\nexport * from \"./m{j}.ts\";\n"),
    };
    files.push((format!("https://s/m{i}.ts"), src));
  }
  let roots: Vec<String> = files.iter().map(|(u, _)| u.clone()).collect();
  // reference: the exported names of the ES rules (own and named exports are
  // names of the module; a star brings the target's names except `default`;
  // own names win; a cycle of stars adds nothing)
  let mut names: Vec<BTreeSet<String>> = (0..N)
    .map(|i| match shape[i] {
      0 => ["other".to_string()].into_iter().collect(),
      1 | 2 | 3 | 5 => ["x".to_string()].into_iter().collect(),
      _ => BTreeSet::new(),
    })
    .collect();
  loop {
    let mut changed = false;
    for i in 0..N {
      if shape[i] >= 4 {
        for a in names[target[i]].clone() {
          changed |= names[i].insert(a);
        }
      }
    }
    if !changed {
      break;
    }
  }
  let case = json!({"sources": files, "shapes": shape.iter().map(|s| SHAPES[*s]).collect::<Vec<_>>()});
  let arg = json!({"files": files, "roots": roots}).to_string();
  let out = std::process::Command::new(std::env::current_exe().expect("own path")).arg("c16-probe").arg(&arg).output();
  run.evals = 1;
  let out = match out {
    Ok(o) => o,
    Err(e) => panic!("cannot start the probe process: {e}"), // a harness panic is a machinery error, not a verdict
  };
  if !out.status.success() {
    let err = String::from_utf8_lossy(&out.stderr);
    let tail: String = err.lines().rev().take(3).collect::<Vec<_>>().into_iter().rev().collect::<Vec<_>>().join(" | ");
    run.violate(
      if tail.contains("overflowed its stack") { "go-to-definition-or-exports-overflows-the-stack".to_string() } else { format!("symbol-analysis-aborts-the-process:{:?}", out.status.code()) },
      format!("the probe process ended with {:?}: {tail}", out.status),
      case.clone(),
    );
    run.state_key = hash_of(&format!("{shape:?}{target:?}"));
    return run;
  }
  let got: Value = serde_json::from_slice(&out.stdout).unwrap_or(json!({"error": "unreadable probe output"}));
  let mut outcome = vec![];
  for i in 0..N {
    let g = &got[&roots[i]];
    let have: BTreeSet<String> = g["exports"].as_array().map(|a| a.iter().filter_map(|x| x.as_str().map(|s| s.to_string())).collect()).unwrap_or_default();
    outcome.push(hash_of(&(have.clone(), g["definitions_or_unresolveds"].as_u64())));
    if g["exports"].is_null() {
      run.violate("module-has-no-symbol-table", format!("{}: {g}", roots[i]), case.clone());
    } else if have != names[i] {
      run.violate(
        "resolved-exports-differ-from-es-rules:named",
        format!("{}: resolved exports {have:?}, the ES rules give {:?}", roots[i], names[i]),
        case.clone(),
      );
    }
  }
  let edges = shape.iter().filter(|s| **s >= 2).count();
  run.count("worlds_with_a_cycle_through_all_three_modules", (edges == 3 && { let mut seen = [false; N]; let mut c = 0; for _ in 0..N { seen[c] = true; c = target[c]; } seen.iter().all(|b| *b) }) as u64);
  run.state_key = hash_of(&format!("{shape:?}{target:?}"));
  run.nontrivial = edges >= 2;
  run.outcome_key = hash_of(&outcome);
  if ch.describe() {
    run.sample = Some(json!({"world": case, "probe": got}));
  }
  run
}

/// the symbol spec corpus
fn body_corpus(ch: &Ch) -> Run {
  let mut run = Run::default();
  let files: Vec<String> = crate::props::c08::corpus_files().into_iter().filter(|f| f.contains("/symbols/")).collect();
  let idx = ch.shape("spec_file", files.len().max(1));
  let Some(path) = files.get(idx) else { return run };
  let content = std::fs::read_to_string(path).unwrap_or_default();
  let sections = crate::props::c08::spec_sources_all(&content);
  let srcs: Vec<(String, String)> = sections.into_iter().filter(|(n, _)| n.starts_with("file://") || n.starts_with("https://")).collect();
  let roots: Vec<String> = srcs.iter().filter(|(n, _)| n.ends_with("mod.ts")).map(|(n, _)| n.clone()).take(1).collect();
  if roots.is_empty() {
    return run;
  }
  let Some((graph, analyzer)) = build_files(&srcs, &roots, ch) else { return run };
  let root = RootSymbol::new(&graph, &analyzer);
  let case = |extra: Value| json!({"spec_file": path, "detail": extra});
  let mut n = 0;
  for (u, _) in &srcs {
    let Some(module) = root.module_from_specifier(&url(u)) else { continue };
    n += 1;
    run.evals += check_module(module, &root, &mut run, &case);
    let _ = module.exports(&root);
  }
  run.state_key = hash_of(path);
  run.nontrivial = n > 0;
  run.outcome_key = hash_of(&(path, run.evals));
  if ch.describe() {
    run.sample = Some(json!({"spec_file": path, "modules": n}));
  }
  run
}

pub fn prop(tier: Tier) -> Prop {
  let (n, slots, modes) = match tier {
    Tier::Quick => (3, 3, vec![Mode::Deviations(1), Mode::Deviations(2), Mode::Deviations(3)]),
    Tier::Thorough => (4, 3, vec![Mode::Deviations(2), Mode::Deviations(3), Mode::Deviations(4)]),
  };
  Prop {
    id: "C16",
    rule: format!("four parts: (named-cycles) all 1000 re-export graphs over 3 modules mixing named re-exports and export-star, each in a child process: exported names = ES rules, go-to-definition returns; (stars) ALL star re-export graphs over {n} modules (every subset of the directed edges, cycles and diamonds included) x own-export assignments from {{}}, {{a}}, {{b}}, {{a, default}}: the resolved export set of every module must equal the least fixpoint of own names plus non-default names of star targets, own names resolving directly; (trees) the generated packages of C09 (51 declaration templates incl. merged declarations, overloads, namespaces, class members, expando, import/export aliases): every symbol table is a tree consistent with its parent pointers, declaration names and ranges are sound, all ids exist, go-to-definition from every symbol terminates; (corpus) the symbol spec corpus. Non-trivial = graph with >= 2 star edges / module set with > 12 symbols."),
    assumptions: vec![
      "the tree conditions are those of the repository's own spec helper (symbols whose declarations are all definitions must be listed by their parent) plus agreement of every child/member link with the child's parent pointer".into(),
      "termination is enforced by the per-run watchdog".into(),
    ],
    parts: vec![
      Part { name: "stars", body: Box::new(body_stars(n)), modes: vec![Mode::Full], what: "all star re-export graphs" },
      Part { name: "trees", body: Box::new(body_trees(slots)), modes, what: "symbol tables of generated packages" },
      Part { name: "corpus", body: Box::new(body_corpus), modes: vec![Mode::Full], what: "tests/specs/symbols" },
      Part {
        name: "named-cycles",
        body: Box::new(body_named_cycles),
        modes: vec![Mode::Full],
        what: "all re-export graphs over 3 modules where each module has nothing / its own x / `export { x } from` / `import { x } from` + `export { x }` / `export * from` / own x + `export * from` (cycles through named and star hops included); every world in a child process: exported names vs the ES rules, go-to-definition from every symbol and every export must return (a stack overflow or abort of the child is a violation)",
      },
    ],
    termination_property: true,
    min_outcomes: 10,
  }
}
