//! C17 — pruning types from a full graph gives the code-only graph.

use crate::engine::*;
use crate::env::*;
use crate::obs::*;
use crate::report::*;
use crate::world::*;
use deno_graph::GraphKind;
use deno_graph::Module;
use deno_graph::ModuleGraph;
use deno_graph::Resolution;
use serde_json::Value;
use serde_json::json;

pub fn slot_class(r: Result<&Module, &deno_graph::ModuleError>) -> String {
  match r {
    Ok(m) => match m {
      Module::Js(j) => format!("js:{}", j.media_type),
      Module::Json(_) => "json".into(),
      Module::Wasm(_) => "wasm".into(),
      Module::Npm(_) => "npm".into(),
      Module::Node(_) => "node".into(),
      Module::External(_) => "external".into(),
    },
    Err(e) => format!("error:{}", err_kind(e)),
  }
}

/// The code-level view the property compares.
pub fn code_view(g: &ModuleGraph) -> Value {
  let mut slots = serde_json::Map::new();
  for (s, r) in g.specifiers() {
    if g.redirects.contains_key(s) {
      continue;
    }
    slots.insert(s.to_string(), json!(slot_class(r)));
  }
  let mut edges = serde_json::Map::new();
  for m in g.modules() {
    let mut e = serde_json::Map::new();
    for (text, d) in m.dependencies() {
      match &d.maybe_code {
        Resolution::None => {}
        Resolution::Ok(r) => {
          e.insert(text.clone(), json!([r.specifier.as_str(), d.is_dynamic]));
        }
        Resolution::Err(err) => {
          e.insert(text.clone(), json!([format!("ERR {err}"), d.is_dynamic]));
        }
      }
    }
    edges.insert(m.specifier().to_string(), Value::Object(e));
  }
  json!({
    "slots": slots,
    "redirects": g.redirects.iter().map(|(k, v)| (k.to_string(), json!(v.as_str()))).collect::<serde_json::Map<_, _>>(),
    "code_edges": edges,
    // the verdict only: which of several failures is reported first follows
    // the dependency order, which the statement does not promise
    "valid": match g.valid() { Ok(()) => json!("ok"), Err(_) => json!("invalid") },
    "has_node_specifier": g.has_node_specifier,
  })
}


fn body(space: Space) -> impl Fn(&Ch) -> Run + Sync + Send {
  move |ch: &Ch| {
    let mut run = Run::default();
    let world = space.generate(ch, 2, None);
    if world.has_source_phase_clobber() {
      // excluded here; reported once, under C01 (see DESIGN.md findings)
      run.state_key = world.key();
      run.outcome_key = 1;
      run.count("excluded_source_phase_clobber", 1);
      return run;
    }
    let roots = world.roots();
    let two_roots = roots.len() == 2;
    let mut outcomes = vec![];
    for (skip_dynamic, is_dynamic, unstable) in [
      // skip_dynamic_deps is not varied: prune_types() cannot know that the
      // build skipped dynamic imports, and the property quantifies over
      // inputs, not over that option
      (false, false, true),
      (false, true, false),
      (false, false, false),
    ] {
      let build = |kind: GraphKind| -> Result<ModuleGraph, DriveError> {
        let sched = Sched::new(SchedMode::Immediate);
        let loader = ScriptedLoader::new(sched);
        world.install(&loader);
        let mut g = ModuleGraph::new(kind);
        build_graph(
          &mut g,
          roots.clone(),
          &loader,
          BuildCfg {
            skip_dynamic_deps: skip_dynamic,
            is_dynamic,
            unstable_bytes: unstable,
            unstable_text: unstable,
            ..Default::default()
          },
          ch,
        )?;
        Ok(g)
      };
      let (Ok(mut all), Ok(code)) = (build(GraphKind::All), build(GraphKind::CodeOnly)) else {
        run.violate("build-did-not-finish", "build deadlocked", world.describe());
        continue;
      };
      all.prune_types();
      run.evals += 1;
      let a = code_view(&all);
      let c = code_view(&code);
      outcomes.push(hash_json(&c));
      let case = || {
        json!({"world": world.describe(), "roots": roots.iter().map(|r| r.as_str()).collect::<Vec<_>>(),
          "skip_dynamic_deps": skip_dynamic, "is_dynamic": is_dynamic, "unstable_text_bytes": unstable,
          "pruned": a, "code_only": c})
      };
      if a != c {
        // name the first differing component for the signature
        let comp = ["slots", "redirects", "code_edges", "valid", "has_node_specifier"]
          .iter()
          .find(|k| a[**k] != c[**k])
          .unwrap();
        let detail = diff_detail(&a[*comp], &c[*comp]);
        // cause: a specifier that code only source-phase-imports (cached as an
        // asset => External) but a type-only edge loaded as a full module
        let source_phase_asset = *comp == "slots"
          && a["slots"].as_object().unwrap().iter().all(|(k, va)| {
            let vc = &c["slots"][k];
            va == vc
              || (vc == "external"
                && world.edges.iter().any(|e| {
                  e.form == Form::ImportSource
                    && matches!(e.dst, Target::Spec(d) if world.spec(world.final_target(d)) == *k || world.spec(d) == *k)
                }))
          })
          && a["slots"].as_object().unwrap().len() == c["slots"].as_object().unwrap().len();
        // cause: a JSON file imported without attribute is accepted only where
        // it is first reached inside a dynamic branch (recorded leniency finding)
        let json_leniency = *comp == "slots"
          && a["slots"].as_object().unwrap().len() == c["slots"].as_object().unwrap().len()
          && a["slots"].as_object().unwrap().iter().all(|(k, va)| {
            let vc = &c["slots"][k];
            va == vc
              || (k.ends_with(".json")
                && [va, vc].iter().any(|v| v.as_str() == Some("json"))
                && [va, vc].iter().any(|v| v.as_str().is_some_and(|s| s.starts_with("error:UnsupportedMediaType"))))
          });
        run.violate(
          if source_phase_asset {
            "pruned-keeps-module-where-code-only-has-source-phase-asset".to_string()
          } else if json_leniency {
            "pruned-differs-where-json-without-attribute-is-accepted-only-in-a-dynamic-branch".to_string()
          } else {
            format!("pruned-differs-from-code-only@{comp}:{}", detail.0)
          },
          format!("prune_types() result differs from a CodeOnly build in `{comp}`: {}", detail.1),
          case(),
        );
      }
      // "the graph reports itself as code-only": a further build on the
      // pruned graph behaves like a code-only build - first root built with
      // all dependency kinds, pruned, second root added afterwards, against
      // the CodeOnly build of both roots
      if two_roots && a == c {
        let stepwise = (|| -> Result<ModuleGraph, DriveError> {
          let sched = Sched::new(SchedMode::Immediate);
          let loader = ScriptedLoader::new(sched);
          world.install(&loader);
          let mut g = ModuleGraph::new(GraphKind::All);
          build_graph(&mut g, vec![roots[0].clone()], &loader, BuildCfg { skip_dynamic_deps: skip_dynamic, is_dynamic, unstable_bytes: unstable, unstable_text: unstable, ..Default::default() }, ch)?;
          g.prune_types();
          build_graph(&mut g, vec![roots[1].clone()], &loader, BuildCfg { skip_dynamic_deps: skip_dynamic, is_dynamic, unstable_bytes: unstable, unstable_text: unstable, ..Default::default() }, ch)?;
          Ok(g)
        })();
        match stepwise {
          Err(_) => run.violate("build-did-not-finish", "build on the pruned graph deadlocked", world.describe()),
          Ok(g) => {
            run.evals += 1;
            let s = code_view(&g);
            if s != c {
              let comp = ["slots", "redirects", "code_edges", "valid", "has_node_specifier"].iter().find(|k| s[**k] != c[**k]).unwrap();
              let detail = diff_detail(&s[*comp], &c[*comp]);
              // recorded finding (see C19): whether a JSON file without
              // attribute / a file of unknown media type is accepted is decided
              // by the first load of its slot and sticks for later builds
              let lenient = |v: &Value| v.as_str().is_some_and(|s| s == "json" || s.starts_with("js:") || s == "error:Parse");
              let rejected = |v: &Value| v.as_str().is_some_and(|s| s.starts_with("error:UnsupportedMediaType"));
              let ss = s["slots"].as_object().unwrap();
              let cs = c["slots"].as_object().unwrap();
              let json_leniency = ss.len() == cs.len()
                && ss.iter().any(|(k, va)| cs.get(k) != Some(va))
                && ss.iter().all(|(k, va)| {
                  let Some(vc) = cs.get(k) else { return false };
                  va == vc || (lenient(va) && rejected(vc)) || (rejected(va) && lenient(vc))
                });
              run.violate(
                if json_leniency {
                  "leniency-of-first-load-sticks-across-builds@build-on-pruned-graph".to_string()
                } else {
                  format!("build-on-pruned-graph-differs-from-code-only@{comp}:{}", detail.0)
                },
                format!("build([root 0]) with all kinds, prune_types(), build([root 1]) differs from a CodeOnly build of both roots in `{comp}`: {}", detail.1),
                json!({"world": world.describe(), "roots": roots.iter().map(|r| r.as_str()).collect::<Vec<_>>(), "is_dynamic": is_dynamic, "unstable_text_bytes": unstable, "stepwise": s, "code_only": c}),
              );
            }
            if g.graph_kind() != GraphKind::CodeOnly || g.modules().any(|m| m.js().is_some_and(|j| j.maybe_types_dependency.is_some()) || m.dependencies().values().any(|d| !d.maybe_type.is_none())) {
              run.violate("build-on-pruned-graph-brings-types-back", "type information in a graph that reports itself as code-only", json!({"world": world.describe()}));
            }
          }
        }
      }
      // residue of types in the pruned graph
      if all.graph_kind() != GraphKind::CodeOnly {
        run.violate("pruned-not-code-only", "graph_kind() is not CodeOnly", case());
      }
      if !all.imports.is_empty() {
        run.violate("pruned-keeps-configured-imports", "imports not empty", case());
      }
      for m in all.modules() {
        if let Some(js) = m.js() {
          if js.maybe_types_dependency.is_some() {
            run.violate("pruned-keeps-types-dependency", format!("{}", js.specifier), case());
          }
          if js.fast_check.is_some() {
            run.violate("pruned-keeps-fast-check", format!("{}", js.specifier), case());
          }
        }
        for (t, d) in m.dependencies() {
          if !d.maybe_type.is_none() || d.maybe_deno_types_specifier.is_some() {
            run.violate(
              "pruned-keeps-type-resolution",
              format!("{} dep {t:?}", m.specifier()),
              case(),
            );
          }
        }
      }
    }
    run.state_key = hash_of(&(world.key(), two_roots));
    run.nontrivial = world.edges.iter().any(|e| e.form != Form::Import) && world.edges.len() >= 1;
    run.outcome_key = hash_of(&outcomes);
    if ch.describe() {
      run.sample = Some(json!({"world": world.describe(), "two_roots": two_roots}));
    }
    run
  }
}

/// Graphs that carry fast-check data: generated package + dependency package
/// after `build_fast_check_type_graph`, pruned, against a CodeOnly build.
fn body_fast_check(slots: usize) -> impl Fn(&Ch) -> Run + Sync + Send {
  move |ch: &Ch| {
    let mut run = Run::default();
    let g = crate::fcgen::gen_package(ch, slots);
    let dep_is_root = ch.choose("root_imports_dependency_package_too", 2) == 1;
    let roots: Vec<usize> = if dep_is_root { vec![0, 1] } else { vec![0] };
    let pkgs = [g.pkg.clone(), g.dep.clone()];
    let (Some(all), Some(code)) = (
      crate::fc::fast_check_roots_kind(&pkgs, &roots, None, ch, GraphKind::All),
      crate::fc::fast_check_roots_kind(&pkgs, &roots, None, ch, GraphKind::CodeOnly),
    ) else {
      run.violate("build-did-not-finish", "deadlock", json!({}));
      return run;
    };
    let with_fc = all.modules.values().filter(|(_, s)| matches!(s, crate::fc::FcSlot::Module { .. })).count();
    let mut all = all.graph;
    let code = code.graph;
    all.prune_types();
    run.evals = 1;
    let a = code_view(&all);
    let c = code_view(&code);
    let case = || json!({"package": g.pkg.files.iter().map(|(p, s)| json!([p, s])).collect::<Vec<_>>(), "exports": g.pkg.exports, "workspace_member": g.pkg.workspace, "modules_with_fast_check_output_before_pruning": with_fc, "pruned": a, "code_only": c});
    if a != c {
      let comp = ["slots", "redirects", "code_edges", "valid", "has_node_specifier"].iter().find(|k| a[**k] != c[**k]).unwrap();
      let detail = diff_detail(&a[*comp], &c[*comp]);
      run.violate(format!("pruned-differs-from-code-only@{comp}:{}", detail.0), format!("prune_types() of a graph with fast-check data differs from a CodeOnly build in `{comp}`: {}", detail.1), case());
    }
    if all.graph_kind() != GraphKind::CodeOnly {
      run.violate("pruned-not-code-only", "graph_kind() is not CodeOnly", case());
    }
    for m in all.modules() {
      if let Some(js) = m.js() {
        if js.fast_check.is_some() {
          run.violate("pruned-keeps-fast-check", format!("{}", js.specifier), case());
        }
        if js.maybe_types_dependency.is_some() {
          run.violate("pruned-keeps-types-dependency", format!("{}", js.specifier), case());
        }
      }
      for (t, d) in m.dependencies() {
        if !d.maybe_type.is_none() || d.maybe_deno_types_specifier.is_some() {
          run.violate("pruned-keeps-type-resolution", format!("{} dep {t:?}", m.specifier()), case());
        }
      }
    }
    // serialised form carries no fast-check residue either
    if serde_json::to_string(&all).unwrap().contains("fastCheck") {
      run.violate("pruned-keeps-fast-check", "serialised graph mentions fastCheck", case());
    }
    run.count("graphs_with_fast_check_modules_before_pruning", (with_fc > 0) as u64);
    run.state_key = hash_of(&format!("{:?}{:?}{}{}", g.pkg.files, g.pkg.exports, g.pkg.workspace, dep_is_root));
    run.nontrivial = with_fc > 0;
    run.outcome_key = hash_json(&c);
    if ch.describe() {
      run.sample = Some(json!({"package": g.pkg.files.iter().map(|(p, s)| json!([p, s])).collect::<Vec<_>>(), "modules_with_fast_check_output_before_pruning": with_fc}));
    }
    run
  }
}

/// Worlds with a WebAssembly module that has imports of its own.
fn body_wasm(ch: &Ch) -> Run {
  let mut run = Run::default();
  let w = crate::props::c01::wasm_choices(ch);
  let build = |kind: GraphKind| {
    let sched = Sched::new(SchedMode::Immediate);
    let loader = ScriptedLoader::new(sched);
    let root = crate::props::c01::wasm_install(&w, &loader);
    let mut g = ModuleGraph::new(kind);
    let r = build_graph(&mut g, vec![root], &loader, BuildCfg::default(), ch);
    (g, r)
  };
  let (mut all, r1) = build(GraphKind::All);
  let (code, r2) = build(GraphKind::CodeOnly);
  if r1.is_err() || r2.is_err() {
    run.violate("build-did-not-finish", "deadlock", w.describe.clone());
    return run;
  }
  all.prune_types();
  run.evals = 1;
  let a = code_view(&all);
  let c = code_view(&code);
  let case = || json!({"world": w.describe, "pruned": a, "code_only": c});
  if a != c {
    let comp = ["slots", "redirects", "code_edges", "valid", "has_node_specifier"].iter().find(|k| a[**k] != c[**k]).unwrap();
    let detail = diff_detail(&a[*comp], &c[*comp]);
    run.violate(format!("pruned-differs-from-code-only@{comp}:{}", detail.0), format!("prune_types() of a graph with a WebAssembly module differs from a CodeOnly build in `{comp}`: {}", detail.1), case());
  }
  for m in all.modules() {
    for (t, d) in m.dependencies() {
      if !d.maybe_type.is_none() || d.maybe_deno_types_specifier.is_some() {
        run.violate("pruned-keeps-type-resolution", format!("{} dep {t:?}", m.specifier()), case());
      }
    }
  }
  run.state_key = hash_of(&(format!("{:?}", w.imports), w.via_ts));
  run.nontrivial = !w.imports.is_empty();
  run.outcome_key = hash_json(&c);
  if ch.describe() {
    run.sample = Some(w.describe.clone());
  }
  run
}

/// (class, text) for the first difference between two JSON maps
pub fn diff_detail(a: &Value, b: &Value) -> (String, String) {
  if let (Some(ma), Some(mb)) = (a.as_object(), b.as_object()) {
    for (k, va) in ma {
      match mb.get(k) {
        None => return ("extra".into(), format!("{k} = {va} only on the left")),
        Some(vb) if vb != va => {
          if va.is_object() && vb.is_object() {
            let (c, t) = diff_detail(va, vb);
            return (c, format!("{k}: {t}"));
          }
          let cls = format!("{}!={}", class_of(va), class_of(vb));
          return (cls, format!("{k}: {va} vs {vb}"));
        }
        _ => {}
      }
    }
    for (k, vb) in mb {
      if !ma.contains_key(k) {
        return ("missing".into(), format!("{k} = {vb} only on the right"));
      }
    }
  }
  ("value".into(), format!("{a} vs {b}"))
}

fn class_of(v: &Value) -> String {
  match v {
    Value::String(s) => s.split([':', ' ']).next().unwrap_or("").to_string(),
    Value::Array(a) => a.iter().map(class_of).collect::<Vec<_>>().join(","),
    other => other.to_string(),
  }
}

pub fn prop(tier: Tier) -> Prop {
  let parts = match tier {
    Tier::Quick => vec![Part {
      name: "worlds",
      body: Box::new(body(Space::generic(3, 2))),
      modes: vec![Mode::Deviations(2), Mode::Deviations(3), Mode::Deviations(4)],
      what: "3-specifier worlds, <= 2 import edges, deviation-bounded from the all-TypeScript base world",
    }],
    Tier::Thorough => vec![
      Part {
        name: "worlds",
        body: Box::new(body(Space::generic(3, 3))),
        modes: vec![Mode::Deviations(3), Mode::Deviations(4), Mode::Deviations(5)],
        what: "3-specifier worlds, <= 3 import edges, deviation-bounded",
      },
      Part {
        name: "worlds4",
        body: Box::new(body(Space::generic(4, 3))),
        modes: vec![Mode::Deviations(3), Mode::Deviations(4)],
        what: "4-specifier worlds, <= 3 import edges, deviation-bounded",
      },
    ],
  };
  let mut parts = parts;
  parts.push(Part {
    name: "chains",
    body: Box::new(body(Space::chains())),
    modes: vec![Mode::Full],
    what: "worlds around a redirect chain of 1-3 hops whose middle hops nothing imports directly (head imported statically / dynamically / type-only, a second importer entering at any hop, terminal TypeScript / JavaScript / missing / failing, optional leaf), enumerated completely",
  });
  parts.push(Part {
    name: "wasm-imports",
    body: Box::new(body_wasm),
    modes: vec![Mode::Full],
    what: "worlds with a generated WebAssembly module that has imports of its own: All + prune_types() vs CodeOnly",
  });
  parts.push(Part {
    name: "fast-check",
    body: Box::new(body_fast_check(2)),
    modes: match tier {
      Tier::Quick => vec![Mode::Deviations(1), Mode::Deviations(2)],
      Tier::Thorough => vec![Mode::Deviations(2), Mode::Deviations(3)],
    },
    what: "graphs with fast-check data (generated registry / workspace package + dependency package after build_fast_check_type_graph): prune_types() vs a CodeOnly build of the same world, no fast-check residue",
  });
  match tier {
    Tier::Quick => parts.push(Part {
      name: "core",
      body: Box::new(body(Space::core(3, 3, CORE_KINDS_QUICK))),
      modes: vec![Mode::Full],
      what: "every world over the core alphabet, enumerated completely: 3 specifiers (root TypeScript, others TypeScript or missing), <= 3 edges from {import, dynamic import, import type}",
    }),
    Tier::Thorough => parts.push(Part {
      name: "core",
      body: Box::new(body(Space::core(3, 3, CORE_KINDS))),
      modes: vec![Mode::Full],
      what: "every world over the core alphabet, enumerated completely: 3 specifiers (kinds TypeScript / missing / JavaScript / JSON / redirect), <= 3 edges from {import, dynamic import, import type}",
    }),
  }
  Prop {
    id: "C17",
    rule: "state = (world, root set): entry kinds (ts/js/d.ts/tsx/jsx/json/missing/redirect/txt/content-type-typed/external/loader-error/wasm/unparsable) x import attribute per target x import edges (form from the kind's form alphabet, target incl. node:/npm:/data:/bare/http-downgrade/file-literal) x local|remote x x-typescript-types header; per state 3 option sets (is_dynamic root, unstable text/bytes on/off; skip_dynamic_deps stays off: pruning cannot know about it). All-kind graph + prune_types() is compared with a CodeOnly build. Non-trivial = world with at least one edge of a non-default form.".into(),
    assumptions: vec![
      "error entries are compared by kind and specifier; which importer an error names as referrer is not compared (the statement says 'same errors')".into(),
      "deviation-bounded: all worlds differing from the base world (all TypeScript, no edges) in at most d generator decisions".into(),
    ],
    parts,
    termination_property: false,
    min_outcomes: 8,
  }
}
