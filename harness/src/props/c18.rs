//! C18 — a graph segment is self-contained and equals a direct build of its
//! roots.

use crate::engine::*;
use crate::env::*;
use crate::obs::*;
use crate::props::c17::slot_class;
use crate::report::*;
use crate::world::*;
use deno_graph::GraphKind;
use deno_graph::Module;
use deno_graph::ModuleError;
use deno_graph::ModuleGraph;
use deno_graph::ModuleSpecifier;
use deno_graph::WalkOptions;
use serde_json::json;
use std::collections::BTreeMap;

const OMITS: &str = "segment-omits-code-module-that-has-types-dependency@TypesOnly";
const ROOT_LENIENT: &str = "segment-keeps-entry-loaded-leniently-as-original-root";
const JSON_LENIENT: &str = "segment-keeps-json-accepted-without-attribute-in-dynamic-branch";
const JSON_STRICT: &str = "segment-keeps-json-rejected-without-attribute-where-a-direct-build-accepts-it-in-a-dynamic-branch";

fn tg(r: Result<Option<&Module>, &ModuleError>) -> String {
  match r {
    Ok(Some(m)) => format!("module {} {}", m.specifier(), slot_class(Ok(m))),
    Ok(None) => "absent".into(),
    Err(e) => format!("error {} {}", e.specifier(), err_kind(e)),
  }
}

fn listing(g: &ModuleGraph) -> BTreeMap<String, String> {
  g.specifiers()
    .map(|(s, r)| (s.to_string(), slot_class(r)))
    .collect()
}

fn body(space: Space) -> impl Fn(&Ch) -> Run + Sync + Send {
  move |ch: &Ch| {
    let mut run = Run::default();
    let n_specs = space.n_specs;
    let world = space.generate(ch, 2, None);
    if world.has_source_phase_clobber() {
      run.state_key = world.key();
      run.outcome_key = 1;
      run.count("excluded_source_phase_clobber", 1);
      return run;
    }
    let build = |kind: GraphKind, roots: Vec<ModuleSpecifier>| -> Option<ModuleGraph> {
      let sched = Sched::new(SchedMode::Immediate);
      let loader = ScriptedLoader::new(sched);
      world.install(&loader);
      let mut g = ModuleGraph::new(kind);
      build_graph(
        &mut g,
        roots,
        &loader,
        BuildCfg {
          unstable_bytes: true,
          unstable_text: true,
          ..Default::default()
        },
        ch,
      )
      .ok()?;
      Some(g)
    };
    let mut outcomes = vec![];
    for kind in kind_all() {
      let Some(g) = build(kind, world.roots()) else {
        run.violate("build-did-not-finish", "deadlock", world.describe());
        continue;
      };
      // segment roots: every subset of <= 2 specifiers that hold modules
      // (a root is an attribute-less import: specifiers imported `with { type }`
      // are not used as segment roots - same-attribute proviso)
      let holders: Vec<ModuleSpecifier> = (0..n_specs)
        .filter(|i| {
          (0..n_specs)
            .all(|j| world.attrs[j] == Attr::None || (j != *i && world.final_target(j) != *i))
        })
        .filter(|i| {
          // nor specifiers that are only cached as assets by a source-phase import
          !world.edges.iter().any(|e| {
            e.form == Form::ImportSource
              && matches!(e.dst, Target::Spec(d) if world.final_target(d) == *i)
          })
        })
        .map(|i| world.url(i))
        .filter(|u| g.contains(u))
        .collect();
      let mut root_sets: Vec<Vec<ModuleSpecifier>> = vec![];
      for i in 0..holders.len() {
        root_sets.push(vec![holders[i].clone()]);
        for j in i + 1..holders.len() {
          root_sets.push(vec![holders[i].clone(), holders[j].clone()]);
        }
      }
      for seg_roots in root_sets {
        run.evals += 1;
        let seg = g.segment(&seg_roots);
        let case = || {
          json!({"world": world.describe(), "graph_kind": format!("{kind:?}"),
            "segment_roots": seg_roots.iter().map(|r| r.as_str()).collect::<Vec<_>>(),
            "original": listing(&g), "segment": listing(&seg)})
        };
        let skipped_by_types_only_walk = |spec: &str| {
          kind == GraphKind::TypesOnly
            && g.get(&url(spec)).and_then(|m| m.js()).is_some_and(|js| {
              js.maybe_types_dependency
                .as_ref()
                .is_some_and(|t| t.dependency.ok().is_some())
            })
        };
        // (a) every dependency of every contained module resolves as before
        for m in seg.modules() {
          for (text, d) in m.dependencies() {
            for prefer_types in [false, true] {
              let a = seg.resolve_dependency(text, m.specifier(), prefer_types);
              let b = g.resolve_dependency(text, m.specifier(), prefer_types);
              if a != b {
                let cause = if a.is_none()
                  && [d.get_code(), d.get_type()]
                    .into_iter()
                    .flatten()
                    .any(|t| skipped_by_types_only_walk(g.resolve(t).as_str()))
                {
                  true
                } else {
                  false
                };
                run.violate(
                  if cause { OMITS.to_string() } else { format!("segment-resolve_dependency-differs@{kind:?}") },
                  format!(
                    "resolve_dependency({text:?}, {}, prefer_types={prefer_types}): segment {:?}, original {:?}",
                    m.specifier(),
                    a.map(|s| s.as_str()),
                    b.map(|s| s.as_str())
                  ),
                  case(),
                );
              }
            }
            for t in [d.get_code(), d.get_type()].into_iter().flatten() {
              // only edges the graph kind selects are promised
              let a = tg(seg.try_get(t));
              let b = tg(g.try_get(t));
              if a != b {
                let followed = seg_follows(kind, d, t);
                if followed {
                  let cause = if a == "absent" && skipped_by_types_only_walk(g.resolve(t).as_str()) {
                    true
                  } else {
                    false
                  };
                  run.violate(
                    if cause { OMITS.to_string() } else { format!("segment-target-differs@{kind:?}") },
                    format!("dependency {text:?} of {} -> {t}: segment has {a}, original has {b}", m.specifier()),
                    case(),
                  );
                }
              }
            }
          }
        }
        // (a') a segment of the segment equals the segment of the original
        // (only where neither graph has `sub` as a root: segmenting at a subset
        // of a graph's own roots is a plain clone, which the statement allows)
        for sub in holders.iter().filter(|h| seg.contains(h) && !seg.roots.contains(*h) && !g.roots.contains(*h)).take(3) {
          let nested = seg.segment(std::slice::from_ref(sub));
          let flat = g.segment(std::slice::from_ref(sub));
          let (a, b) = (listing(&nested), listing(&flat));
          if a != b || nested.redirects != flat.redirects {
            let omitted = listing(&g).keys().any(|k| !listing(&seg).contains_key(k) && skipped_by_types_only_walk(k));
            run.violate(
              if omitted { OMITS.to_string() } else { format!("segment-of-segment-differs@{kind:?}") },
              format!("segment([{sub}]) of the segment differs from segment([{sub}]) of the original: {a:?} vs {b:?}"),
              case(),
            );
          }
        }
        // (b) same validation verdict from those roots
        for follow_dynamic in [false, true] {
          let opts = || WalkOptions {
            check_js: deno_graph::CheckJsOption::True,
            follow_dynamic,
            kind,
            prefer_fast_check_graph: false,
          };
          let a = seg.walk(seg_roots.iter(), opts()).validate().map_err(|e| e.to_string());
          let b = g.walk(seg_roots.iter(), opts()).validate().map_err(|e| e.to_string());
          if a.is_ok() != b.is_ok() {
            // a consequence of the recorded omission when the segment lacks a
            // module that a types-only walk replaces by its types dependency
            let omitted = listing(&g).keys().any(|k| !listing(&seg).contains_key(k) && skipped_by_types_only_walk(k))
              || seg_roots.iter().any(|r| skipped_by_types_only_walk(r.as_str()) && seg.get(r).is_none());
            run.violate(
              if omitted { OMITS.to_string() } else { format!("segment-validation-differs@{kind:?}") },
              format!("validate(follow_dynamic={follow_dynamic}): segment {a:?}, original {b:?}"),
              case(),
            );
          }
        }
        // (c) for roots that were not roots of the original: equals a direct build
        let all_original = seg_roots.iter().all(|r| g.roots.contains(r));
        if !all_original {
          if let Some(direct) = build(kind, seg_roots.clone()) {
            let a = listing(&seg);
            let b = listing(&direct);
            outcomes.push(hash_of(&format!("{b:?}")));
            if a != b {
              let only_seg: Vec<_> = a.iter().filter(|(k, v)| b.get(*k) != Some(v)).collect();
              let only_direct: Vec<_> = b.iter().filter(|(k, v)| a.get(*k) != Some(v)).collect();
              let json_leniency = !only_seg.is_empty()
                && only_seg.iter().all(|(k, v)| {
                  v.as_str() == "json"
                    && b.get(*k).map(|s| s.as_str()) == Some("error:UnsupportedMediaType")
                })
                && only_direct.iter().all(|(k, _)| a.get(*k).map(|s| s.as_str()) == Some("json"));
              let root_leniency = !only_seg.is_empty()
                && only_seg.iter().all(|(k, _)| {
                  let u = url(k);
                  g.roots.contains(&u)
                    && !seg_roots.contains(&u)
                    && b.get(*k).map(|s| s.as_str()) == Some("error:UnsupportedMediaType")
                })
                && only_direct.iter().all(|(k, _)| a.contains_key(*k));
              // the mirror image: the original met the file strictly first
              let json_strictness = !only_seg.is_empty()
                && only_seg.iter().all(|(k, v)| {
                  v.as_str() == "error:UnsupportedMediaType" && k.ends_with(".json") && b.get(*k).map(|s| s.as_str()) == Some("json")
                })
                && only_direct.iter().all(|(k, _)| a.get(*k).map(|s| s.as_str()) == Some("error:UnsupportedMediaType"));
              let cls = if root_leniency {
                "root-leniency"
              } else if json_strictness {
                "json-strict"
              } else if json_leniency {
                "json-without-attribute-accepted-in-dynamic-branch"
              } else if only_seg.is_empty()
                && only_direct.iter().all(|(k, _)| skipped_by_types_only_walk(k))
              {
                "omits-code-module-that-has-types-dependency"
              } else if only_seg.is_empty() {
                "segment-lacks"
              } else if only_direct.is_empty() {
                "segment-has-extra"
              } else {
                "entries-differ"
              };
              run.violate(
                match cls {
                  "omits-code-module-that-has-types-dependency" => OMITS.to_string(),
                  "json-without-attribute-accepted-in-dynamic-branch" => JSON_LENIENT.to_string(),
                  "root-leniency" => ROOT_LENIENT.to_string(),
                  "json-strict" => JSON_STRICT.to_string(),
                  _ => format!("segment-differs-from-direct-build@{kind:?}:{cls}"),
                },
                format!("segment only: {only_seg:?}; direct build only: {only_direct:?}"),
                json!({"case": case(), "direct": b}),
              );
            }
          }
        }
      }
    }
    run.state_key = world.key();
    run.nontrivial = world.edges.len() >= 2 || world.edges.iter().any(|e| e.form != Form::Import);
    run.outcome_key = hash_of(&outcomes);
    if ch.describe() {
      run.sample = Some(json!({"world": world.describe()}));
    }
    run
  }
}

/// Does a walk of `kind` with follow_dynamic follow this resolution of `d`?
fn seg_follows(kind: GraphKind, d: &deno_graph::Dependency, t: &ModuleSpecifier) -> bool {
  let code = d.get_code() == Some(t);
  let ty = d.get_type() == Some(t);
  code || (ty && kind.include_types())
}

/// Graphs that carry fast-check modules: segmenting must still go by the
/// modules' real dependencies.
fn body_fast_check(slots: usize) -> impl Fn(&Ch) -> Run + Sync + Send {
  move |ch: &Ch| {
    let mut run = Run::default();
    let Some((r, g, root_sets)) = crate::props::c15::fast_check_graph(ch, slots) else {
      run.violate("build-did-not-finish", "deadlock", json!({}));
      return run;
    };
    let graph = &r.graph;
    let with_fc = r.modules.values().filter(|(_, s)| matches!(s, crate::fc::FcSlot::Module { .. })).count();
    let mut outcome = vec![];
    for seg_roots in root_sets.iter().skip(1) {
      if !seg_roots.iter().all(|u| graph.contains(u)) {
        continue;
      }
      let seg = graph.segment(seg_roots);
      run.evals += 1;
      let case = || {
        json!({"package": g.pkg.files.iter().map(|(p, s)| json!([p, s])).collect::<Vec<_>>(), "exports": g.pkg.exports, "workspace_member": g.pkg.workspace,
          "modules_with_fast_check_output": with_fc, "segment_roots": seg_roots.iter().map(|r| r.as_str()).collect::<Vec<_>>(),
          "original": listing(graph), "segment": listing(&seg)})
      };
      for m in seg.modules() {
        for (text, d) in m.dependencies() {
          for prefer_types in [false, true] {
            let a = seg.resolve_dependency(text, m.specifier(), prefer_types);
            let b = graph.resolve_dependency(text, m.specifier(), prefer_types);
            if a != b {
              run.violate(
                "segment-resolve_dependency-differs@All".to_string(),
                format!("resolve_dependency({text:?}, {}, prefer_types={prefer_types}): segment {:?}, original {:?}", m.specifier(), a.map(|s| s.as_str()), b.map(|s| s.as_str())),
                case(),
              );
            }
          }
          for t in [d.get_code(), d.get_type()].into_iter().flatten() {
            let a = tg(seg.try_get(t));
            let b = tg(graph.try_get(t));
            if a != b && seg_follows(GraphKind::All, d, t) {
              run.violate("segment-target-differs@All".to_string(), format!("dependency {text:?} of {} -> {t}: segment has {a}, original has {b}", m.specifier()), case());
            }
          }
        }
      }
      for follow_dynamic in [false, true] {
        let opts = || WalkOptions { check_js: deno_graph::CheckJsOption::True, follow_dynamic, kind: GraphKind::All, prefer_fast_check_graph: false };
        let a = seg.walk(seg_roots.iter(), opts()).validate().is_ok();
        let b = graph.walk(seg_roots.iter(), opts()).validate().is_ok();
        if a != b {
          run.violate("segment-validation-differs@All".to_string(), format!("validate(follow_dynamic={follow_dynamic}): segment ok={a}, original ok={b}"), case());
        }
      }
      outcome.push(listing(&seg).len());
    }
    run.count("graphs_with_fast_check_modules", (with_fc > 0) as u64);
    run.state_key = hash_of(&format!("{:?}{:?}{}{}", g.pkg.files, g.pkg.exports, g.pkg.workspace, root_sets[0].len()));
    run.nontrivial = with_fc > 0;
    run.outcome_key = hash_of(&outcome);
    if ch.describe() {
      run.sample = Some(json!({"package": g.pkg.files.iter().map(|(p, s)| json!([p, s])).collect::<Vec<_>>(), "modules_with_fast_check_output": with_fc}));
    }
    run
  }
}

/// Worlds with a WebAssembly module that has imports of its own.
fn body_wasm(ch: &Ch) -> Run {
  let mut run = Run::default();
  let kind = *ch.pick("graph_kind", &[GraphKind::All, GraphKind::CodeOnly, GraphKind::TypesOnly]);
  let w = crate::props::c01::wasm_choices(ch);
  let build = |roots: Option<Vec<ModuleSpecifier>>| {
    let sched = Sched::new(SchedMode::Immediate);
    let loader = ScriptedLoader::new(sched);
    let root = crate::props::c01::wasm_install(&w, &loader);
    let mut g = ModuleGraph::new(kind);
    let r = build_graph(&mut g, roots.unwrap_or(vec![root]), &loader, BuildCfg::default(), ch);
    (g, r)
  };
  let (g, r) = build(None);
  if r.is_err() {
    run.violate("build-did-not-finish", "deadlock", w.describe.clone());
    return run;
  }
  let mut outcome = vec![];
  for seg_roots in [vec![url("https://x/m.wasm")], vec![url("https://x/a.ts")], vec![url("https://x/a.ts"), url("https://x/m.wasm")]] {
    if !seg_roots.iter().all(|u| g.contains(u)) {
      continue;
    }
    let seg = g.segment(&seg_roots);
    run.evals += 1;
    let case = || json!({"world": w.describe, "graph_kind": format!("{kind:?}"), "segment_roots": seg_roots.iter().map(|r| r.as_str()).collect::<Vec<_>>(), "original": listing(&g), "segment": listing(&seg)});
    for m in seg.modules() {
      for (text, d) in m.dependencies() {
        for prefer_types in [false, true] {
          let a = seg.resolve_dependency(text, m.specifier(), prefer_types);
          let b = g.resolve_dependency(text, m.specifier(), prefer_types);
          if a != b {
            run.violate(format!("segment-resolve_dependency-differs@{kind:?}"), format!("resolve_dependency({text:?}, {}, prefer_types={prefer_types}): segment {:?}, original {:?}", m.specifier(), a.map(|s| s.as_str()), b.map(|s| s.as_str())), case());
          }
        }
        for t in [d.get_code(), d.get_type()].into_iter().flatten() {
          let a = tg(seg.try_get(t));
          let b = tg(g.try_get(t));
          if a != b && seg_follows(kind, d, t) {
            run.violate(format!("segment-target-differs@{kind:?}"), format!("dependency {text:?} of {} -> {t}: segment has {a}, original has {b}", m.specifier()), case());
          }
        }
      }
    }
    if !seg_roots.iter().all(|r| g.roots.contains(r)) {
      let (direct, r) = build(Some(seg_roots.clone()));
      if r.is_ok() && listing(&seg) != listing(&direct) {
        run.violate(format!("segment-differs-from-direct-build@{kind:?}:entries-differ"), format!("segment {:?} vs direct build {:?}", listing(&seg), listing(&direct)), case());
      }
    }
    outcome.push(listing(&seg).len());
  }
  run.state_key = hash_of(&(format!("{:?}{kind:?}", w.imports), w.via_ts));
  run.nontrivial = !w.imports.is_empty();
  run.outcome_key = hash_of(&outcome);
  if ch.describe() {
    run.sample = Some(w.describe.clone());
  }
  run
}

pub fn prop(tier: Tier) -> Prop {
  let parts = match tier {
    Tier::Quick => vec![Part {
      name: "worlds",
      body: Box::new(body(Space::generic(3, 2))),
      modes: vec![Mode::Deviations(2), Mode::Deviations(3), Mode::Deviations(4)],
      what: "3-specifier worlds, <= 2 edges, deviation-bounded; 3 graph kinds x all segment root sets of size <= 2",
    }],
    Tier::Thorough => vec![
      Part {
        name: "worlds",
        body: Box::new(body(Space::generic(3, 3))),
        modes: vec![Mode::Deviations(3), Mode::Deviations(4), Mode::Deviations(5)],
        what: "3-specifier worlds, <= 3 edges",
      },
      Part {
        name: "worlds4",
        body: Box::new(body(Space::generic(4, 3))),
        modes: vec![Mode::Deviations(3), Mode::Deviations(4)],
        what: "4-specifier worlds, <= 3 edges",
      },
    ],
  };
  let mut parts = parts;
  match tier {
    Tier::Quick => parts.push(Part {
      name: "core",
      body: Box::new(body(Space::core(3, 3, CORE_KINDS_QUICK))),
      modes: vec![Mode::Full],
      what: "every world over the core alphabet, enumerated completely: 3 specifiers (root TypeScript, others TypeScript or missing), <= 3 edges from {import, dynamic import, import type}",
    }),
    Tier::Thorough => parts.push(Part {
      name: "core",
      body: Box::new(body(Space::core(3, 3, CORE_KINDS))),
      modes: vec![Mode::Full],
      what: "every world over the core alphabet, enumerated completely: 3 specifiers (kinds TypeScript / missing / JavaScript / JSON / redirect), <= 3 edges from {import, dynamic import, import type}",
    }),
  }
  parts.push(Part {
    name: "chains",
    body: Box::new(body(Space::chains())),
    modes: vec![Mode::Full],
    what: "worlds around a redirect chain of 1-3 hops whose middle hops nothing imports directly (head imported statically / dynamically / type-only, a second importer entering at any hop, terminal TypeScript / JavaScript / missing / failing, optional leaf), enumerated completely",
  });
  parts.push(Part {
    name: "wasm-imports",
    body: Box::new(body_wasm),
    modes: vec![Mode::Full],
    what: "worlds with a generated WebAssembly module that has imports of its own, each graph kind: segments at the wasm module / an imported module / both vs the original and vs a direct build",
  });
  parts.push(Part {
    name: "fast-check",
    body: Box::new(body_fast_check(2)),
    modes: match tier {
      Tier::Quick => vec![Mode::Deviations(1), Mode::Deviations(2)],
      Tier::Thorough => vec![Mode::Deviations(2), Mode::Deviations(3)],
    },
    what: "graphs with fast-check modules (generated package + dependency package after build_fast_check_type_graph, with imports only function bodies use): segments at each entrypoint / the dependency package / an inner pair keep every dependency of every contained module resolving as in the original",
  });
  Prop {
    id: "C18",
    rule: "state = world (as in C17); per world: 3 graph kinds x every set of <= 2 module-holding specifiers as segment roots. Checked: every dependency of every module in the segment resolves (both preferences) and looks up (try_get) exactly as in the original; validation verdict from those roots (follow_dynamic both ways); for non-original roots the listing equals a direct build of those roots. Non-trivial = world with >= 2 edges or a non-default form.".into(),
    assumptions: vec![
      "entries compared by module kind / error kind (not by error referrer)".into(),
      "direct builds use the same options (unstable text/bytes on, dynamic deps followed)".into(),
      "segmenting a segment at up to three contained modules that are roots of neither graph must equal segmenting the original there (at a subset of a graph's own roots segment() returns a clone, which the statement allows)".into(),
      "segment roots are specifiers whose imports carry no `type` attribute (a root is an attribute-less import; same-attribute proviso as C01/C19)".into(),
      "type-only targets are only required to be present when the graph kind includes types".into(),
    ],
    parts,
    termination_property: false,
    min_outcomes: 6,
  }
}
