//! C19 — incremental builds and reloads converge to the from-scratch graph.

use crate::engine::*;
use crate::env::*;
use crate::obs::*;
use crate::report::*;
use crate::world::*;
use deno_graph::GraphKind;
use deno_graph::ModuleGraph;
use deno_graph::ModuleSpecifier;
use serde_json::Value;
use serde_json::json;

fn effective(world: &World, alt: &[Option<Vec<Edge>>], variants: &[bool]) -> World {
  let mut w = world.clone();
  // a broken entry (missing, unparsable, loader error) toggles to a healthy
  // TypeScript module with the alternative import list
  for i in 0..world.kinds.len() {
    if variants[i] && matches!(world.kinds[i], Kind::Missing | Kind::BadSyntax | Kind::Error) {
      w.kinds[i] = Kind::Ts;
    }
  }
  let mut edges = vec![];
  for i in 0..world.kinds.len() {
    if variants[i]
      && let Some(a) = &alt[i]
    {
      edges.extend(a.iter().cloned());
    } else {
      edges.extend(world.edges.iter().filter(|e| e.src == i).cloned());
    }
  }
  w.edges = edges;
  w
}

/// the configured (tsconfig-like) type import of the world's last specifier
fn configured_import(world: &World) -> Vec<deno_graph::ReferrerImports> {
  let n = world.kinds.len();
  vec![deno_graph::ReferrerImports {
    referrer: url(&format!("{}deno.json", world.base())),
    imports: vec![format!("./{}", world.kinds[n - 1].file_name(n - 1))],
  }]
}

fn scratch(world: &World, roots: &[ModuleSpecifier], ch: &Ch, kind: GraphKind, with_import: bool, is_dynamic: bool) -> Option<ModuleGraph> {
  let sched = Sched::new(SchedMode::Immediate);
  let loader = ScriptedLoader::new(sched);
  world.install(&loader);
  let mut g = ModuleGraph::new(kind);
  build_graph(
    &mut g,
    roots.to_vec(),
    &loader,
    BuildCfg {
      unstable_bytes: true,
      unstable_text: true,
      imports: if with_import { configured_import(world) } else { vec![] },
      is_dynamic,
      ..Default::default()
    },
    ch,
  )
  .ok()?;
  Some(g)
}

/// Classifies a slot difference by its cause when it is one of the recorded
/// leniency findings.
fn leniency_class(inc: &Value, fresh: &Value) -> Option<&'static str> {
  // one side rejected the file as an unsupported media type, the other
  // accepted it leniently (JSON without attribute, or a file of unknown media
  // type parsed as JavaScript - successfully or with a syntax error)
  let lenient = |v: &Value| {
    matches!(v.get("kind").and_then(|k| k.as_str()), Some("json" | "js"))
      || v.get("error_kind").and_then(|k| k.as_str()) == Some("Parse")
  };
  let rejected = |v: &Value| v.get("error_kind").and_then(|k| k.as_str()) == Some("UnsupportedMediaType");
  if lenient(inc) && rejected(fresh) {
    return Some("json-accepted-earlier-sticks");
  }
  if rejected(inc) && lenient(fresh) {
    return Some("json-rejected-earlier-sticks");
  }
  None
}

/// Which importer an error entry blames is decided by whoever requested the
/// specifier first; the statement does not fix it, so error entries are
/// compared by kind, specifier and message without the referrer.
fn sanitize(v: &Value) -> Value {
  match v {
    Value::Object(m) if m.contains_key("error_kind") => {
      json!({"error_kind": m["error_kind"], "err_specifier": m["err_specifier"], "error_text": m["error_text"]})
    }
    Value::Object(m) => Value::Object(m.iter().map(|(k, v)| (k.clone(), sanitize(v))).collect()),
    other => other.clone(),
  }
}

fn body(space: Space, depth: usize) -> impl Fn(&Ch) -> Run + Sync + Send {
  body_with(move |ch: &Ch| space.generate(ch, 2, Some(2)), depth)
}

/// Worlds around a redirect chain: root 0 imports the head, root 1 enters the
/// chain anywhere, the chain (1-3 hops) ends in a TypeScript module that may
/// import a further module.
fn chain_world(ch: &Ch) -> World {
  let len = 1 + ch.shape("chain_len", 3);
  let enter = ch.shape("second_root_enters_at", len + 1);
  // 0, 1: roots; 2..2+len: redirects; 2+len: terminal; 3+len: leaf
  let n = 4 + len;
  let mut kinds = vec![Kind::Ts; n];
  let mut redirect_to = vec![0; n];
  for i in 0..len {
    kinds[2 + i] = Kind::Redirect;
    redirect_to[2 + i] = 3 + i;
  }
  let mut edges = vec![
    Edge { src: 0, form: Form::Import, dst: Target::Spec(2), aux: 0 },
    Edge { src: 1, form: Form::Import, dst: Target::Spec(2 + enter), aux: 0 },
  ];
  if ch.flag("terminal_imports_leaf") {
    edges.push(Edge { src: 2 + len, form: Form::Import, dst: Target::Spec(3 + len), aux: 0 });
  }
  World {
    remote: true,
    kinds,
    attrs: vec![Attr::None; n],
    redirect_to,
    edges,
    types_header: None,
    n_roots: 2,
  }
}

fn body_with(generate: impl Fn(&Ch) -> World + Sync + Send, depth: usize) -> impl Fn(&Ch) -> Run + Sync + Send {
  body_with_alts(generate, depth, false)
}

/// Twin worlds for same-length edits: m0 (root) imports m2 in one of three
/// forms, m2 may import m4; m3 is m2's twin (same kind, same file-name length).
fn twin_world(ch: &Ch) -> World {
  let form = *ch.pick("form_of_the_edited_import", &[Form::Import, Form::Dynamic, Form::ImportType, Form::ExportStar]);
  let mut edges = vec![Edge { src: 0, form, dst: Target::Spec(2), aux: 0 }];
  if ch.flag("m2_imports_m4") {
    edges.push(Edge { src: 2, form: Form::Import, dst: Target::Spec(4), aux: 0 });
  }
  if ch.flag("m3_imports_m4") {
    edges.push(Edge { src: 3, form: Form::Import, dst: Target::Spec(4), aux: 0 });
  }
  World {
    remote: ch.flag("remote"),
    kinds: vec![Kind::Ts; 5],
    attrs: vec![Attr::None; 5],
    redirect_to: vec![0; 5],
    edges,
    types_header: None,
    n_roots: 2,
  }
}

/// `same_length_alts`: every module's alternative import list is its own list
/// with each target swapped for its twin (an edit that keeps the byte length of
/// the source), and the builds of the history may share one capturing analyzer.
fn body_with_alts(generate: impl Fn(&Ch) -> World + Sync + Send, depth: usize, same_length_alts: bool) -> impl Fn(&Ch) -> Run + Sync + Send {
  move |ch: &Ch| {
    let mut run = Run::default();
    let world = generate(ch);
    let n_specs = world.kinds.len();
    let capturing = deno_graph::ast::CapturingModuleAnalyzer::default();
    let share_analyzer = same_length_alts && ch.flag("builds_and_reloads_share_one_capturing_analyzer");
    // one alternative import list per source module (default: no imports)
    let mut alt: Vec<Option<Vec<Edge>>> = vec![None; n_specs];
    for i in 0..n_specs {
      if same_length_alts {
        let twin = |t: usize| match t { 2 => 3, 3 => 2, o => o };
        let mine: Vec<Edge> = world.edges.iter().filter(|e| e.src == i).cloned().collect();
        if mine.iter().any(|e| matches!(e.dst, Target::Spec(t) if twin(t) != t)) {
          alt[i] = Some(mine.into_iter().map(|mut e| { if let Target::Spec(t) = e.dst { e.dst = Target::Spec(twin(t)); } e }).collect());
        }
        continue;
      }
      let fixable = matches!(world.kinds[i], Kind::Missing | Kind::BadSyntax | Kind::Error);
      if !world.kinds[i].has_source() && !fixable {
        continue;
      }
      let forms = forms_for(if fixable { Kind::Ts } else { world.kinds[i] });
      let k = ch.choose("alt_imports", 1 + forms.len().min(8));
      let mut edges = vec![];
      if k > 0 {
        let t = ch.choose("alt_target", n_specs);
        let form = forms[k - 1];
        // respect the attribute proviso exactly like the generator
        let form = if world.attrs[t] != Attr::None
          && !matches!(
            form,
            Form::Import | Form::SideEffect | Form::ExportStar | Form::ExportNamed | Form::Dynamic | Form::StaticAndDynamic | Form::DynamicAndStatic | Form::ImportType | Form::ExportType
          ) {
          Form::Import
        } else if form == Form::TsTypesPragma {
          Form::Import
        } else {
          form
        };
        edges.push(Edge {
          src: i,
          form,
          dst: Target::Spec(t),
          aux: 0,
        });
      }
      alt[i] = Some(edges);
    }
    let r0 = world.url(0);
    let r1 = world.url(1);
    // history
    let mut variants = vec![false; n_specs];
    let kind = [GraphKind::All, GraphKind::CodeOnly, GraphKind::TypesOnly][ch.choose("graph_kind", 3)];
    // every build and reload of the history treats its roots as dynamically imported
    let is_dynamic = ch.choose("roots_are_dynamic_imports", 2) == 1;
    let mut graph = ModuleGraph::new(kind);
    let mut roots_so_far: Vec<ModuleSpecifier> = vec![];
    let mut edited = false;
    let mut history: Vec<String> = vec![];
    // a reload is an attribute-less load: specifiers that some import (in
    // either variant) loads as an asset are not edited/reloaded (proviso)
    let asset_target = |m: usize| {
      world.attrs[m] != Attr::None
        || world
          .edges
          .iter()
          .chain(alt.iter().flatten().flatten())
          .any(|e| e.form == Form::ImportSource && matches!(e.dst, Target::Spec(d) if world.final_target(d) == m))
    };
    let editable: Vec<usize> = (0..n_specs)
      .filter(|i| alt[*i].is_some() && !asset_target(*i))
      .collect();
    // the configured import is an attribute-less import of the last specifier (proviso)
    let last = n_specs - 1;
    let import_allowed = world.attrs[last] == Attr::None && world.attrs[world.final_target(last)] == Attr::None && !asset_target(last) && !asset_target(world.final_target(last));
    let n_ops = 4 + editable.len();
    let mut import_given = false;
    let mut outcome = vec![];
    // boundary: the history may begin with a build that has no roots at all
    if ch.choose("history_begins_with_a_build_without_roots", 2) == 1 {
      let sched = Sched::new(SchedMode::Immediate);
      let loader = ScriptedLoader::new(sched);
      world.install(&loader);
      if build_graph(&mut graph, vec![], &loader, BuildCfg { is_dynamic, ..Default::default() }, ch).is_err() {
        run.violate("build-did-not-finish", "deadlock on a build without roots", json!({}));
      }
      let o = obs(&graph);
      if !o["slots"].as_object().unwrap().is_empty() || !o["roots"].as_array().unwrap().is_empty() || !o["redirects"].as_object().unwrap().is_empty() {
        run.violate("build-without-roots-changes-graph", "a build with an empty root list left something in the graph", json!({"graph": o["slots"], "roots": o["roots"]}));
      }
      history.push("build()".into());
    }
    for step in 0..depth {
      // op 0 = stop (so that shorter histories are prefixes, explored once)
      let op = ch.shape("op", n_ops + 1);
      if op == 0 {
        break;
      }
      let op = op - 1;
      let cur = effective(&world, &alt, &variants);
      if cur.has_source_phase_clobber() {
        run.count("excluded_source_phase_clobber", 1);
        break;
      }
      let before = obs(&graph);
      let sched = Sched::new(SchedMode::Immediate);
      let loader = ScriptedLoader::new(sched);
      let cfg = || BuildCfg {
        unstable_bytes: true,
        unstable_text: true,
        is_dynamic,
        module_analyzer: if share_analyzer { Some(&capturing) } else { None },
        ..Default::default()
      };
      let mut reloaded: Option<usize> = None;
      if op == 3 && !import_allowed {
        break;
      }
      if op <= 3 {
        let set: Vec<ModuleSpecifier> = match op {
          0 | 3 => vec![r0.clone()],
          1 => vec![r1.clone()],
          _ => vec![r0.clone(), r1.clone()],
        };
        // op 3: the same build call also brings a configured type import
        let adds_import = op == 3 && !import_given;
        if op == 3 {
          import_given = true;
          history.push(format!("build({}; configured import of {})", r0.path(), world.url(last).path()));
        } else {
          history.push(format!("build({})", set.iter().map(|s| s.path()).collect::<Vec<_>>().join(",")));
        }
        cur.install(&loader);
        let all_known = set.iter().all(|s| roots_so_far.contains(s));
        for s in &set {
          if !roots_so_far.contains(s) {
            roots_so_far.push(s.clone());
          }
        }
        let mut c = cfg();
        if op == 3 {
          c.imports = configured_import(&world);
        }
        if build_graph(&mut graph, set, &loader, c, ch).is_err() {
          run.violate("build-did-not-finish", "deadlock", json!({"history": history}));
          break;
        }
        if all_known && !adds_import {
          // building again with roots it already has changes nothing
          let after = obs(&graph);
          run.evals += 1;
          if sanitize(&after["slots"]) != sanitize(&before["slots"]) || after["redirects"] != before["redirects"] || after["roots"] != before["roots"] {
            run.violate(
              "rebuild-of-known-roots-changes-graph",
              "build() with roots the graph already has changed it",
              json!({"world": world.describe(), "history": history, "before": before["slots"], "after": after["slots"]}),
            );
          }
        }
      } else {
        if roots_so_far.is_empty() {
          break; // nothing to reload yet
        }
        let m = editable[op - 4];
        variants[m] = !variants[m];
        edited = true;
        let cur = effective(&world, &alt, &variants);
        if cur.has_source_phase_clobber() {
          run.count("excluded_source_phase_clobber", 1);
          break;
        }
        // the reload names the edited specifier, or a specifier that redirects to it
        // (only one the graph has recorded as such: to the graph any other name is a different module)
        let sources: Vec<usize> = (0..n_specs)
          .filter(|i| cur.kinds[*i] == Kind::Redirect && cur.final_target(*i) == m && !asset_target(*i))
          .filter(|i| graph.redirects.contains_key(&cur.url(*i)) && *graph.resolve(&cur.url(*i)) == cur.url(m))
          .collect();
        let via = ch.choose("reload_via_redirecting_specifier", 1 + sources.len());
        let named = if via == 0 { m } else { sources[via - 1] };
        if named == m {
          history.push(format!("edit+reload({})", cur.url(m).path()));
        } else {
          history.push(format!("edit({})+reload({})", cur.url(m).path(), cur.url(named).path()));
        }
        cur.install(&loader);
        reloaded = Some(m);
        if reload_graph(&mut graph, vec![cur.url(named)], &loader, cfg(), ch).is_err() {
          run.violate("build-did-not-finish", "deadlock", json!({"history": history}));
          break;
        }
      }
      // compare with a from-scratch build of all roots on the current sources
      let cur = effective(&world, &alt, &variants);
      let Some(fresh) = scratch(&cur, &roots_so_far, ch, kind, import_given, is_dynamic) else {
        break;
      };
      let mut a = obs(&graph);
      let mut f = obs(&fresh);
      a["slots"] = sanitize(&a["slots"]);
      f["slots"] = sanitize(&f["slots"]);
      run.evals += 1;
      outcome.push(hash_json(&f["slots"]));
      let case = |extra: Value| {
        json!({"world": world.describe(), "graph_kind": format!("{kind:?}"), "roots_are_dynamic_imports": is_dynamic, "shared_capturing_analyzer": share_analyzer, "alt_imports": alt.iter().enumerate().filter_map(|(i, a)| a.as_ref().map(|e| {
            let mut w = world.clone(); w.edges = e.clone(); json!({"module": world.spec(i), "source": w.render(i).0})})).collect::<Vec<_>>(),
          "history": history, "detail": extra})
      };
      if !edited {
        // pure incremental builds: the whole graph must equal the one-shot build
        for key in ["slots", "redirects", "roots", "imports", "mappings", "has_node_specifier"] {
          if a[key] != f[key] {
            let (cls, txt) = if key == "slots" {
              crate::props::c17::diff_detail(&a[key], &f[key])
            } else {
              ("value".to_string(), format!("{} vs {}", a[key], f[key]))
            };
            // cause classification for the recorded leniency finding
            let lenient = key == "slots"
              && a["slots"].as_object().unwrap().iter().all(|(k, va)| {
                let vf = &f["slots"][k];
                va == vf || leniency_class(va, vf).is_some()
              })
              && a["slots"].as_object().unwrap().len() == f["slots"].as_object().unwrap().len();
            run.violate(
              if lenient {
                "leniency-of-first-load-sticks-across-builds".to_string()
              } else {
                format!("incremental-build-differs-from-one-shot@{key}:{cls}")
              },
              format!("after {history:?}: {key} differs from building {:?} at once: {txt}", roots_so_far.iter().map(|r| r.path()).collect::<Vec<_>>()),
              case(json!({"incremental": a[key], "one_shot": f[key]})),
            );
            break;
          }
        }
      } else {
        // after edits: everything in the from-scratch graph must be identical
        let fs = f["slots"].as_object().unwrap();
        let as_ = a["slots"].as_object().unwrap();
        for (k, vf) in fs {
          let va = as_.get(k).cloned().unwrap_or(Value::Null);
          if va != *vf {
            let cls = if va.is_null() {
              "reachable-entry-absent".to_string()
            } else if let Some(c) = leniency_class(&va, vf) {
              c.to_string()
            } else {
              let (c, _) = crate::props::c17::diff_detail(&va, vf);
              format!("entry-differs:{c}")
            };
            let is_reloaded = reloaded.is_some_and(|m| cur.spec(m) == *k);
            let reload_of_asset = reloaded.is_some_and(|m| {
              cur.spec(m) == *k
                && (cur.attrs[m] != Attr::None
                  || cur.edges.iter().any(|e| {
                    e.form == Form::ImportSource && matches!(e.dst, Target::Spec(d) if cur.final_target(d) == m)
                  }))
            });
            run.violate(
              if cls.starts_with("json-") {
                "leniency-of-first-load-sticks-across-builds".to_string()
              } else if reload_of_asset {
                "reload-loads-asset-imported-specifier-as-module".to_string()
              } else {
                format!("after-reload-differs-from-scratch@{}:{cls}", if is_reloaded { "reloaded-module" } else { "reachable-module" })
              },
              format!("after {history:?}: entry {k} is {} but a from-scratch build has {}", short(&va), short(vf)),
              case(json!({"incremental": va, "from_scratch": vf})),
            );
            break;
          }
        }
        for (k, v) in f["redirects"].as_object().unwrap() {
          if a["redirects"].get(k) != Some(v) {
            run.violate(
              "after-reload-redirect-differs-from-scratch",
              format!("after {history:?}: redirect {k} -> {v} of the from-scratch build is {:?} incrementally", a["redirects"].get(k)),
              case(json!({})),
            );
          }
        }
        // entries that are no longer reachable may remain but are never altered
        if reloaded.is_some() {
          let bsan = sanitize(&before["slots"]);
          let bs = bsan.as_object().unwrap();
          for (k, va) in as_ {
            if !fs.contains_key(k)
              && reloaded.is_none_or(|m| cur.spec(m) != *k)
              && let Some(vb) = bs.get(k)
              && vb != va
            {
              run.violate(
                "unreachable-entry-altered-by-reload",
                format!("after {history:?}: entry {k}, not reachable any more, changed from {} to {}", short(vb), short(va)),
                case(json!({"before": vb, "after": va})),
              );
            }
          }
        }
      }
      let _ = step;
    }
    run.state_key = hash_of(&(world.key(), format!("{alt:?}{kind:?}{is_dynamic}{share_analyzer}"), history.clone()));
    run.nontrivial = history.len() >= 2;
    run.outcome_key = hash_of(&outcome);
    if ch.describe() {
      run.sample = Some(json!({"world": world.describe(), "history": history}));
    }
    run
  }
}

fn short(v: &Value) -> String {
  if let Some(e) = v.get("error_kind") {
    format!("error {e} ({})", v["error"].as_str().unwrap_or("").lines().next().unwrap_or(""))
  } else if let Some(k) = v.get("kind") {
    format!("module {k}")
  } else {
    v.to_string()
  }
}

pub fn prop(tier: Tier) -> Prop {
  let parts = match tier {
    Tier::Quick => vec![Part {
      name: "histories",
      body: Box::new(body(Space::generic(3, 2), 3)),
      modes: vec![Mode::Deviations(1), Mode::Deviations(2)],
      what: "3-specifier worlds x one alternative import list per module; all histories of <= 3 operations from {build(r0), build(r1), build(r0,r1), edit+reload(m)}",
    },
    Part {
      name: "same-length-edits",
      body: Box::new(body_with_alts(twin_world, 3, true)),
      modes: vec![Mode::Deviations(0), Mode::Deviations(1)],
      what: "twin worlds: an edit swaps an import target for a module of the same name length (the source keeps its byte length); builds and reloads optionally share one CapturingModuleAnalyzer (its parse cache must notice the edit)",
    },
    Part {
      name: "chains",
      body: Box::new(body_with(chain_world, 3)),
      modes: vec![Mode::Deviations(0), Mode::Deviations(1)],
      what: "worlds around a redirect chain of 1-3 hops (second root enters anywhere); edits of the modules behind the chain, reloaded by their own specifier or by any specifier redirecting to them",
    }],
    Tier::Thorough => vec![
      Part {
        name: "histories",
        body: Box::new(body(Space::generic(3, 2), 4)),
        modes: vec![Mode::Deviations(1), Mode::Deviations(2), Mode::Deviations(3)],
        what: "3-specifier worlds, histories of <= 4 operations",
      },
      Part {
        name: "same-length-edits",
        body: Box::new(body_with_alts(twin_world, 4, true)),
        modes: vec![Mode::Deviations(1), Mode::Deviations(2)],
        what: "twin worlds, same-length edits, optionally one shared CapturingModuleAnalyzer, histories of <= 4 operations",
      },
      Part {
        name: "chains",
        body: Box::new(body_with(chain_world, 4)),
        modes: vec![Mode::Deviations(1), Mode::Deviations(2), Mode::Deviations(3)],
        what: "worlds around a redirect chain of 1-3 hops, histories of <= 4 operations, reload by own specifier or through any redirecting specifier",
      },
      Part {
        name: "histories4",
        body: Box::new(body(Space::generic(4, 3), 3)),
        modes: vec![Mode::Deviations(2), Mode::Deviations(3)],
        what: "4-specifier worlds, histories of <= 3 operations",
      },
    ],
  };
  Prop {
    id: "C19",
    rule: "state = (world, alternative import lists, operation history); histories are all sequences up to the depth over {build(r0), build(r1), build(r0,r1), build(r0) together with a configured type import, edit+reload(m) for each source module}; after every operation the live graph is compared with a from-scratch build of the roots so far on the current sources (whole graph when no edit happened; reachable entries + untouched leftovers after edits); rebuilding known roots must be a no-op. Non-trivial = history of >= 2 operations.".into(),
    assumptions: vec![
      "history operations are free (shape) choices - every history up to the depth is explored for every world within the deviation bound".into(),
      "an edit toggles one module between its generated import list and one alternative import list (a missing / unparsable / loader-error entry toggles to a healthy TypeScript module and back); it is always followed by a reload that names that specifier or (one deviation) a specifier redirecting to it - Builder::reload resolves redirects, so embedders may name either".into(),
      "a reload is an attribute-less load, so specifiers that some import loads as an asset (type attribute, source phase) are not reloaded (same-attribute proviso)".into(),
      "error entries are compared by kind, specifier and message; which importer an error blames is decided by whoever requested it first and is not compared".into(),
      "same-attribute proviso as C01; worlds where a source-phase import targets an otherwise-loaded specifier are excluded (reported under C01)".into(),
    ],
    parts,
    termination_property: false,
    min_outcomes: 8,
  }
}
