//! C20 — module text and original bytes are faithful to what the loader
//! supplied.

use crate::engine::*;
use crate::env::*;
use crate::obs::*;
use crate::report::*;
use deno_graph::GraphKind;
use deno_graph::Module;
use deno_graph::ModuleGraph;
use serde_json::json;

const ATOMS: &[(&str, &[u8])] = &[
  ("a", b"a"),
  ("e-acute", "é".as_bytes()),
  ("euro", "€".as_bytes()),
  ("astral", "😀".as_bytes()),
  ("utf8-bom", &[0xEF, 0xBB, 0xBF]),
  ("FFFE", &[0xFF, 0xFE]),
  ("FEFF", &[0xFE, 0xFF]),
  ("FF", &[0xFF]),
  ("C0", &[0xC0]),
  ("trunc3", &[0xE2, 0x82]),
  ("nul", &[0x00]),
  ("u16le-a", &[0x61, 0x00]),
  ("u16be-a", &[0x00, 0x61]),
  ("u16le-lone-hi", &[0x00, 0xD8]),
  ("u16be-lone-hi", &[0xD8, 0x00]),
  ("u16le-astral", &[0x3D, 0xD8, 0x00, 0xDE]),
  ("odd-b", b"b"),
  ("cp1252-80", &[0x80]),
  ("cp1252-81", &[0x81]),
];

const HEADERS: &[Option<&str>] = &[
  None,
  Some("utf-8"),
  Some("UTF-8"),
  Some("utf-16le"),
  Some("utf-16be"),
  Some("windows-1252"),
  Some("bogus"),
];

// ---- reference decoder, independent of encoding_rs

/// The WHATWG Encoding Standard's shared UTF-16 decoder, transcribed from the
/// specification text (lead byte / lead surrogate state machine).
fn decode_utf16(bytes: &[u8], le: bool) -> String {
  let mut out = String::new();
  let mut lead_byte: Option<u8> = None;
  let mut lead_surrogate: Option<u16> = None;
  let mut queue: std::collections::VecDeque<u8> = bytes.iter().copied().collect();
  loop {
    let Some(byte) = queue.pop_front() else {
      if lead_byte.is_some() || lead_surrogate.is_some() {
        out.push('\u{FFFD}');
      }
      return out;
    };
    let Some(lb) = lead_byte.take() else {
      lead_byte = Some(byte);
      continue;
    };
    let unit = if le {
      u16::from_le_bytes([lb, byte])
    } else {
      u16::from_be_bytes([lb, byte])
    };
    if let Some(ls) = lead_surrogate.take() {
      if (0xDC00..=0xDFFF).contains(&unit) {
        let c = 0x10000 + (((ls as u32) - 0xD800) << 10) + ((unit as u32) - 0xDC00);
        out.push(char::from_u32(c).unwrap());
      } else {
        // restore the code unit's two bytes and report an error
        queue.push_front(byte);
        queue.push_front(lb);
        out.push('\u{FFFD}');
      }
      continue;
    }
    if (0xD800..=0xDBFF).contains(&unit) {
      lead_surrogate = Some(unit);
    } else if (0xDC00..=0xDFFF).contains(&unit) {
      out.push('\u{FFFD}');
    } else {
      out.push(char::from_u32(unit as u32).unwrap());
    }
  }
}

fn decode_cp1252(bytes: &[u8]) -> String {
  const HI: [u16; 32] = [
    0x20AC, 0x0081, 0x201A, 0x0192, 0x201E, 0x2026, 0x2020, 0x2021, 0x02C6, 0x2030, 0x0160,
    0x2039, 0x0152, 0x008D, 0x017D, 0x008F, 0x0090, 0x2018, 0x2019, 0x201C, 0x201D, 0x2022,
    0x2013, 0x2014, 0x02DC, 0x2122, 0x0161, 0x203A, 0x0153, 0x009D, 0x017E, 0x0178,
  ];
  bytes
    .iter()
    .map(|b| match *b {
      0x80..=0x9F => char::from_u32(HI[(*b - 0x80) as usize] as u32).unwrap(),
      b => b as char,
    })
    .collect()
}

#[derive(Debug, PartialEq)]
enum Want {
  Text(String),
  DecodeError,
}

fn reference(bytes: &[u8], header: Option<&str>, is_file: bool) -> Want {
  let label = match header {
    Some(h) => h.trim().to_ascii_lowercase(),
    None => {
      if is_file && bytes.starts_with(&[0xFF, 0xFE]) {
        "utf-16le".into()
      } else if is_file && bytes.starts_with(&[0xFE, 0xFF]) {
        "utf-16be".into()
      } else {
        "utf-8".into()
      }
    }
  };
  let text = match label.as_str() {
    "utf-8" | "utf8" => String::from_utf8_lossy(bytes).into_owned(),
    "utf-16le" => decode_utf16(bytes, true),
    "utf-16be" => decode_utf16(bytes, false),
    "windows-1252" => decode_cp1252(bytes),
    _ => return Want::DecodeError,
  };
  Want::Text(match text.strip_prefix('\u{FEFF}') {
    Some(rest) => rest.to_string(),
    None => text,
  })
}

fn body(max_atoms: usize) -> impl Fn(&Ch) -> Run + Sync + Send {
  move |ch: &Ch| {
    let mut run = Run::default();
    let n = ch.shape("n_atoms", max_atoms + 1);
    let mut bytes: Vec<u8> = Vec::new();
    let mut names = Vec::new();
    for _ in 0..n {
      let a = ch.shape("atom", ATOMS.len());
      bytes.extend_from_slice(ATOMS[a].1);
      names.push(ATOMS[a].0);
    }
    let mut evals = 0;
    let mut outcome = Vec::new();
    // a sibling root in another encoding, loaded by the same build before or
    // after the module under test: nothing may carry over from one to the other
    let sibling_first = ch.flag("sibling_root_first");
    let retry = ch.flag("first_load_of_the_remote_module_fails_the_integrity_check");
    let mut sib_bytes: Vec<u8> = vec![0xFF, 0xFE];
    for u in "{\"s\":\"é\"}".encode_utf16() {
      sib_bytes.extend_from_slice(&u.to_le_bytes());
    }
    for header in HEADERS {
      for is_file in [true, false] {
        for media in ["ts", "json"] {
          // TS modules must parse to be observable: put the bytes behind a
          // line comment written in the encoding the text will be decoded as
          let (content, expect_src): (Vec<u8>, Vec<u8>) = (bytes.clone(), bytes.clone());
          let spec = format!(
            "{}://x/m.{}",
            if is_file { "file" } else { "https" },
            media
          );
          let spec = spec.replace("file://x/", "file:///");
          let sched = Sched::new(SchedMode::Immediate);
          let loader = ScriptedLoader::new(sched);
          let ctype = match (media, header) {
            (_, None) => None,
            ("ts", Some(h)) => Some(format!("application/typescript; charset={h}")),
            (_, Some(h)) => Some(format!("application/json; charset={h}")),
          };
          match &ctype {
            None => loader.add(&spec, Entry::bytes(&content)),
            Some(c) => loader.add(&spec, Entry::with_headers(&content, &[("content-type", c)])),
          }
          let sib_spec = if is_file { "file:///sib.json" } else { "https://x/sib.json" };
          if is_file {
            loader.add(sib_spec, Entry::bytes(&sib_bytes));
          } else {
            loader.add(sib_spec, Entry::with_headers(&sib_bytes, &[("content-type", "application/json; charset=utf-16le")]));
          }
          let roots = if sibling_first { vec![url(sib_spec), url(&spec)] } else { vec![url(&spec), url(sib_spec)] };
          // the first attempt to load the remote module may fail the integrity
          // check (stale cache): the builder retries once bypassing the cache,
          // and what the retry delivers is decoded like any other response
          if retry && !is_file {
            let target = url(&spec);
            *loader.injector.borrow_mut() = Some(Box::new(move |call: &LoadCall, _idx: usize| {
              if call.kind == "load" && call.specifier == target && call.cache_setting == deno_graph::source::CacheSetting::Use {
                Answer::Load(Err(deno_graph::source::LoadError::ChecksumIntegrity(deno_graph::source::ChecksumIntegrityError { actual: "aa".into(), expected: "bb".into() })))
              } else {
                Answer::Honest
              }
            }));
          }
          let mut graph = ModuleGraph::new(GraphKind::All);
          if let Err(e) = build_graph(&mut graph, roots, &loader, BuildCfg::default(), ch) {
            run.violate("build-did-not-finish", format!("{e:?}"), json!({"bytes": names}));
            continue;
          }
          evals += 1;
          let want = reference(&expect_src, *header, is_file);
          let case = json!({"atoms": names, "bytes_hex": hex(&content), "charset_header": header, "specifier": spec, "sibling_root_first": sibling_first, "first_load_of_the_remote_module_fails_the_integrity_check": retry && !is_file});
          match (graph.try_get(&url(sib_spec)), reference(&sib_bytes, if is_file { None } else { Some("utf-16le") }, is_file)) {
            (Ok(Some(Module::Json(j))), Want::Text(t)) if j.source.text.as_ref() == t.as_str() && t == "{\"s\":\"é\"}" => {}
            (got, _) => run.violate(
              "sibling-module-text-mismatch",
              format!("the UTF-16LE sibling {sib_spec} became {:?}", got.map(|m| m.map(|m| m.source().map(|s| s.to_string()))).map_err(|e| e.to_string())),
              case.clone(),
            ),
          }
          let entry = graph.try_get(&url(&spec));
          match (entry, &want) {
            (Err(e), Want::DecodeError) => {
              outcome.push(0u8);
              if !err_kind(e).starts_with("Load:Decode") {
                run.violate(
                  "unsupported-charset-not-a-decode-error",
                  format!("unsupported charset gave {}", err_kind(e)),
                  case,
                );
              }
            }
            (Ok(Some(m)), Want::DecodeError) => {
              run.violate(
                "undecodable-admitted-as-module",
                format!("unsupported charset label admitted as module {}", m.specifier()),
                case,
              );
            }
            (Err(e), Want::Text(_)) => {
              // a TS module whose decoded text does not parse is not
              // observable; anything else is a failure to load decodable text
              if media == "ts" && err_kind(e) == "Parse" {
                outcome.push(1);
              } else {
                run.violate(
                  "decodable-text-rejected",
                  format!("decodable input became {}: {}", err_kind(e), e),
                  case,
                );
              }
            }
            (Ok(None), _) => {
              run.violate("module-absent", "root has no entry", case);
            }
            (Ok(Some(m)), Want::Text(t)) => {
              let (src, size_json) = match m {
                Module::Js(js) => (&js.source, js.size()),
                Module::Json(j) => (&j.source, j.size()),
                other => {
                  run.violate(
                    "unexpected-module-kind",
                    format!("{:?}", other.media_type()),
                    case,
                  );
                  continue;
                }
              };
              outcome.push(2 + (src.decoded_kind as u8));
              if src.text.as_ref() != t.as_str() {
                run.violate(
                  format!("text-mismatch@{}", header.unwrap_or("none")),
                  format!("stored text {:?}, reference decoding {:?}", src.text, t),
                  case.clone(),
                );
              }
              match src.try_get_original_bytes() {
                None => {}
                Some(b) => {
                  if b.as_ref() != content.as_slice() {
                    run.violate(
                      format!("original-bytes-differ@{:?}", src.decoded_kind),
                      format!("try_get_original_bytes() = {} but the loader supplied {}", hex(&b), hex(&content)),
                      case.clone(),
                    );
                  }
                }
              }
              // serialised size = byte length of stored text
              let ser = serde_json::to_value(&graph).unwrap();
              let sz = ser["modules"][0]["size"].as_u64();
              if sz != Some(src.text.len() as u64) || size_json != src.text.len() {
                run.violate(
                  "size-mismatch",
                  format!("serialised size {sz:?}, size() {size_json}, text is {} bytes", src.text.len()),
                  case,
                );
              }
            }
          }
        }
      }
    }
    run.evals = evals;
    run.state_key = hash_of(&(&bytes, sibling_first, retry));
    run.nontrivial = bytes.iter().any(|b| *b >= 0x80) || bytes.contains(&0);
    run.outcome_key = hash_of(&outcome);
    if ch.describe() {
      run.sample = Some(json!({"atoms": names, "bytes_hex": hex(&bytes), "inner_loop": "7 charset headers x {file, https} x {ts, json}"}));
    }
    run
  }
}

/// The same question for a registry file whose module information is embedded
/// in the version manifest and whose content arrives through the deferred
/// content load.
fn body_deferred(max_atoms: usize) -> impl Fn(&Ch) -> Run + Sync + Send {
  move |ch: &Ch| {
    use crate::registry::*;
    let mut run = Run::default();
    let n = ch.shape("n_atoms", max_atoms + 1);
    let mut tail: Vec<u8> = Vec::new();
    let mut names = Vec::new();
    for _ in 0..n {
      let a = ch.shape("atom", ATOMS.len());
      tail.extend_from_slice(ATOMS[a].1);
      names.push(ATOMS[a].0);
    }
    // a parsable module whose trailing comment carries the bytes under test
    // (the root asks for a sibling file served as windows-1252 first, and this
    // file imports a further one served without any header: three deferred
    // content loads in one package, with a named charset before and none after)
    let mut content: Vec<u8> = b"import \"./post.ts\";\nexport const v = 1;\n//".to_vec();
    let post_content = "export const p = \"é\";\n".as_bytes().to_vec();
    let sib_content = "export const s = \"é\";\n".as_bytes().to_vec();
    let sib_want = "export const s = \"Ã©\";\n";
    let lead_bom = ch.flag("leading_utf8_bom");
    if lead_bom {
      content = [&[0xEF, 0xBB, 0xBF][..], &content[..]].concat();
    }
    content.extend_from_slice(&tail);
    let mut outcome = vec![];
    for header in HEADERS {
      let sched = Sched::new(SchedMode::Immediate);
      let loader = ScriptedLoader::new(sched);
      loader.add_text("https://x/root.ts", "import \"jsr:@s/a@1/sib\";\nimport \"jsr:@s/a@1\";\n");
      let mut v = RegVersion::new("1.0.0", &[]);
      // the embedded module information is computed from the text as a UTF-8 reader sees it
      v.files = vec![("/mod.ts".into(), content.clone()), ("/sib.ts".into(), sib_content.clone()), ("/post.ts".into(), post_content.clone())];
      v.exports = json!({".": "./mod.ts", "./sib": "./sib.ts"});
      v.embed_module_graph = true;
      let p = RegPackage { name: "@s/a".into(), versions: vec![v], raw_meta: None };
      p.install(&loader);
      let file_url = "https://jsr.io/@s/a/1.0.0/mod.ts";
      if let Some(h) = header {
        loader.add(file_url, Entry::with_headers(&content, &[("content-type", &format!("application/typescript; charset={h}"))]));
      }
      let sib_url = "https://jsr.io/@s/a/1.0.0/sib.ts";
      loader.add(sib_url, Entry::with_headers(&sib_content, &[("content-type", "application/typescript; charset=windows-1252")]));
      *loader.cached_only.borrow_mut() = Some(Default::default());
      let mut graph = ModuleGraph::new(GraphKind::All);
      if build_graph(&mut graph, vec![url("https://x/root.ts")], &loader, BuildCfg::default(), ch).is_err() {
        continue;
      }
      run.evals += 1;
      let sib_deferred = loader.log.borrow().iter().filter(|c| c.specifier.as_str() == sib_url).count() >= 2;
      if sib_deferred {
        match graph.try_get(&url(sib_url)) {
          Ok(Some(Module::Js(js))) if js.source.text.as_ref() == sib_want => {}
          other => run.violate(
            "deferred-sibling-text-mismatch",
            format!("the windows-1252 sibling became {:?}", other.map(|m| m.map(|m| m.source().map(|s| s.to_string()))).map_err(|e| e.to_string())),
            json!({"atoms": names, "bytes_hex": hex(&content), "charset_header_of_mod_ts": header}),
          ),
        }
        run.count("runs_with_two_deferred_content_loads", 1);
      }
      let post_url = "https://jsr.io/@s/a/1.0.0/post.ts";
      if loader.log.borrow().iter().filter(|c| c.specifier.as_str() == post_url).count() >= 2 {
        match graph.try_get(&url(post_url)) {
          Ok(Some(Module::Js(js))) if js.source.text.as_bytes() == post_content.as_slice() => {}
          other => run.violate(
            "deferred-sibling-text-mismatch",
            format!("post.ts, served as UTF-8 without a header after mod.ts, became {:?}", other.map(|m| m.map(|m| m.source().map(|s| s.to_string()))).map_err(|e| e.to_string())),
            json!({"atoms": names, "bytes_hex": hex(&content), "charset_header_of_mod_ts": header}),
          ),
        }
        run.count("runs_with_a_headerless_deferred_load_after_mod_ts", 1);
      }
      let deferred = loader.log.borrow().iter().filter(|c| c.specifier.as_str() == file_url).count() >= 2;
      if !deferred {
        continue; // no embedded info for this text (not analysable): not the path under test
      }
      let want = reference(&content, *header, false);
      let case = json!({"atoms": names, "bytes_hex": hex(&content), "charset_header": header, "path": "deferred registry content load"});
      match (graph.try_get(&url(file_url)), &want) {
        (Ok(Some(Module::Js(js))), Want::Text(t)) => {
          outcome.push(1u8);
          if js.source.text.as_ref() != t.as_str() {
            run.violate(
              format!("deferred-content-text-mismatch@{}", if header.is_some() { "charset-header-ignored" } else { "no-header" }),
              format!("stored text {:?}, reference decoding {:?}", js.source.text, t),
              case.clone(),
            );
          }
          if let Some(b) = js.source.try_get_original_bytes()
            && b.as_ref() != content.as_slice()
          {
            run.violate("deferred-original-bytes-differ", format!("{} vs supplied {}", hex(&b), hex(&content)), case.clone());
          }
        }
        (Err(e), Want::DecodeError) if err_kind(e).starts_with("Load:Decode") => outcome.push(2),
        (Ok(Some(_)), Want::DecodeError) => {
          outcome.push(3);
          run.violate("deferred-content-text-mismatch@charset-header-ignored", "unsupported charset label admitted as module", case.clone());
        }
        (other, _) => {
          outcome.push(4);
          let _ = other;
        }
      }
    }
    run.state_key = hash_of(&content);
    run.nontrivial = tail.iter().any(|b| *b >= 0x80);
    run.outcome_key = hash_of(&outcome);
    if ch.describe() {
      run.sample = Some(json!({"atoms": names, "bytes_hex": hex(&content), "path": "deferred registry content load"}));
    }
    run
  }
}

fn hex(b: &[u8]) -> String {
  b.iter().map(|x| format!("{x:02x}")).collect::<Vec<_>>().join(" ")
}

pub fn prop(tier: Tier) -> Prop {
  let max_atoms = match tier {
    Tier::Quick => 3,
    Tier::Thorough => 4,
  };
  Prop {
    id: "C20",
    rule: format!("state = one byte string (sequence of <= {max_atoms} atoms from a 19-atom alphabet: ASCII, 2/3/4-byte UTF-8, UTF-8 BOM, FF FE, FE FF, invalid/truncated UTF-8, NUL, UTF-16 units in both endiannesses, lone surrogates, odd trailing byte, cp1252 specials); per string all 7 charset headers x file/https x ts/json are built as a root and compared with an independent reference decoder. Non-trivial = string with a non-ASCII or NUL byte."),
    assumptions: vec![
      "reference decoder: String::from_utf8_lossy (UTF-8), the WHATWG shared UTF-16 decoder transcribed from the standard (UTF-16), WHATWG index table (windows-1252); BOM sniffing only for local files (deno_media_type's documented contract)".into(),
      "a TS module whose decoded text does not parse is reported as a Parse error and its text is not observable; JSON modules accept every byte string".into(),
      "charset labels limited to utf-8, UTF-8, utf-16le, utf-16be, windows-1252 and an unsupported one".into(),
    ],
    parts: vec![
      Part {
        name: "decode",
        body: Box::new(body(max_atoms)),
        modes: vec![Mode::Full],
        what: "root modules built from every byte string x header x scheme x media type",
      },
      Part {
        name: "deferred",
        body: Box::new(body_deferred(max_atoms.min(2))),
        modes: vec![Mode::Full],
        what: "registry file with embedded module information whose content arrives through the deferred content load: every byte string (in a trailing comment) x header",
      },
    ],
    termination_property: false,
    min_outcomes: 6,
  }
}
