//! C09 / C10 / C11 — fast-check output is closed under reference, erased and
//! explicit, and preserves the public API.

use crate::engine::*;
use crate::env::*;
use crate::fc::*;
use crate::fcast::*;
use crate::fcgen::*;
use crate::report::*;
use serde_json::Value;
use serde_json::json;
use std::collections::BTreeMap;
use std::collections::BTreeSet;

#[derive(Clone, Copy, PartialEq)]
pub enum Which {
  C09,
  C10,
  C11,
}

/// resolved export-name set of an emitted/original module, following star
/// re-exports inside the package (own names win, `default` is not re-exported)
fn resolved_exports(
  url_: &str,
  texts: &BTreeMap<String, String>,
  visited: &mut BTreeSet<String>,
) -> Option<BTreeSet<String>> {
  if !visited.insert(url_.to_string()) {
    return Some(BTreeSet::new());
  }
  let text = texts.get(url_)?;
  let p = parse(url_, text).ok()?;
  let e = exports_of(&p);
  let mut names: BTreeSet<String> = e.own.keys().cloned().collect();
  for s in &e.stars {
    let target = url(url_).join(s).ok()?.to_string();
    if let Some(sub) = resolved_exports(&target, texts, visited) {
      for n in sub {
        if n != "default" {
          names.insert(n);
        }
      }
    }
  }
  Some(names)
}

pub fn check_result(which: Which, r: &FcResult, entrypoints: &[String], unused: &[String], run: &mut Run, case: &dyn Fn(Value) -> Value) {
  let originals: BTreeMap<String, String> = r.modules.iter().map(|(u, (src, _))| (u.clone(), src.clone())).collect();
  let emitted: BTreeMap<String, String> = r
    .modules
    .iter()
    .filter_map(|(u, (_, s))| match s {
      FcSlot::Module { text, .. } => Some((u.clone(), text.clone())),
      _ => None,
    })
    .collect();
  let any_diag = r.modules.values().any(|(_, s)| matches!(s, FcSlot::Diagnostics(_)));
  for (u, (orig, slot)) in &r.modules {
    let FcSlot::Module { text, source_map, .. } = slot else { continue };
    run.evals += 1;
    let parsed = match parse(u, text) {
      Ok(p) => p,
      Err(e) => {
        if which == Which::C09 {
          run.violate("emitted-module-does-not-parse", format!("{u}: {e}"), case(json!({"module": u, "emitted": text})));
        }
        continue;
      }
    };
    let Ok(parsed_orig) = parse(u, orig) else { continue };
    match which {
      Which::C09 => {
        // closure under reference inside the module
        let orig_ex = exports_of(&parsed_orig);
        let free = unresolved_identifiers(&parsed);
        let dangling: Vec<&String> = free.iter().filter(|n| orig_ex.top_level_names.contains(*n)).collect();
        if !dangling.is_empty() {
          let outside = unresolved_identifiers_outside_ambient_private(&parsed);
          let only_ambient_private = !dangling.iter().any(|n| outside.contains(*n));
          run.violate(
            if only_ambient_private { "dangling-reference@ts-private-member-of-ambient-class" } else { "dangling-reference-in-emitted-module" },
            format!("{u}: {dangling:?} referred to module-level declarations/imports of the original and resolve to nothing in the emitted module"),
            case(json!({"module": u, "emitted": text})),
          );
        }
        // imports / re-exports from other modules of the package
        let em_ex = exports_of(&parsed);
        for (name, src) in &em_ex.from_other {
          if !(src.starts_with("./") || src.starts_with("../")) {
            continue;
          }
          let target = url(u).join(src).unwrap().to_string();
          if r.graph.get(&url(&target)).is_none() {
            run.violate("relative-specifier-resolves-to-no-module", format!("{u}: {src:?} -> {target}"), case(json!({"module": u, "emitted": text})));
            continue;
          }
          if name == "*" {
            continue;
          }
          if let Some(t) = emitted.get(&target) {
            let mut visited = BTreeSet::new();
            let names = resolved_exports(&target, &emitted, &mut visited).unwrap_or_default();
            let _ = t;
            if !names.contains(name) {
              run.violate(
                "import-of-name-the-emitted-counterpart-does-not-export",
                format!("{u} imports/re-exports {name:?} from {src:?}, whose emitted module exports {names:?}"),
                case(json!({"module": u, "emitted": text, "target_emitted": emitted.get(&target)})),
              );
            }
          } else if originals.contains_key(&target) {
            run.violate(
              "import-from-module-without-emitted-counterpart",
              format!("{u} imports {name:?} from {src:?}, which has no fast-check output"),
              case(json!({"module": u, "emitted": text})),
            );
          }
        }
        // import type expressions `import("./x")` are covered by relative-specifier check through dependencies
        // source map
        match serde_json::from_str::<Value>(source_map) {
          Err(e) => run.violate("source-map-is-not-json", format!("{u}: {e}"), case(json!({"module": u}))),
          Ok(sm) => {
            let mappings = sm["mappings"].as_str().unwrap_or("");
            if sm["version"] != json!(3) || !sm["sources"].is_array() {
              run.violate("source-map-malformed", format!("{u}: version {:?}", sm["version"]), case(json!({"module": u, "source_map": sm})));
            }
            match decode_mappings(mappings) {
              Err(e) => run.violate("source-map-mappings-malformed", format!("{u}: {e}"), case(json!({"module": u, "source_map": sm}))),
              Ok(ms) => {
                for m in &ms {
                  let g = offset_utf16(text, m.gen_line, m.gen_col);
                  let o = offset_utf16(orig, m.src_line, m.src_col);
                  if g.is_none() || o.is_none() || m.src != 0 {
                    run.violate(
                      "source-map-position-outside-text",
                      format!("{u}: mapping {m:?} lies outside the {} text", if g.is_none() { "emitted" } else { "original" }),
                      case(json!({"module": u, "emitted": text})),
                    );
                    break;
                  }
                  if let (Some(gi), Some(oi)) = (ident_at(text, g.unwrap()), ident_at(orig, o.unwrap())) {
                    const MODIFIERS: &[&str] = &["declare", "private", "protected", "public", "readonly", "static", "export", "const", "var", "let", "default", "namespace", "async", "function", "abstract", "override", "accessor", "get", "set", "type", "import", "as", "never", "unknown", "any", "return"];
                    if gi != oi && !MODIFIERS.contains(&gi) && !MODIFIERS.contains(&oi) && !gi.starts_with("param") {
                      run.violate(
                        "source-map-maps-identifier-to-different-identifier",
                        format!("{u}: emitted `{gi}` at {}:{} maps to original `{oi}` at {}:{}", m.gen_line, m.gen_col, m.src_line, m.src_col),
                        case(json!({"module": u, "emitted": text})),
                      );
                      break;
                    }
                  }
                }
              }
            }
          }
        }
      }
      Which::C10 => {
        for (class, snippet) in erasure_problems(&parsed, text) {
          // the recorded defect: an arrow function whose expression body is a
          // "leavable" expression is emitted verbatim, without return type
          let known = matches!(class.as_str(), "arrow-body-not-erased" | "arrow-without-return-type");
          run.violate(
            if known {
              "arrow-expr-body-leavable-no-return-type".to_string()
            } else if class.starts_with("ambient-class:") {
              "ambient-class-members-left-as-written".to_string()
            } else {
              format!("not-erased:{class}")
            },
            format!("{u}: {class}: `{snippet}`"),
            case(json!({"module": u, "emitted": text})),
          );
        }
      }
      Which::C11 => {
        // export names
        let mut v1 = BTreeSet::new();
        let mut v2 = BTreeSet::new();
        let want = resolved_exports(u, &originals, &mut v1).unwrap_or_default();
        let got = resolved_exports(u, &emitted, &mut v2).unwrap_or_default();
        let is_entry = entrypoints.contains(u);
        if is_entry && want != got {
          run.violate(
            format!("entrypoint-export-names-differ:{}", if got.is_subset(&want) { "lost" } else { "gained" }),
            format!("{u}: original exports {want:?}, emitted exports {got:?}"),
            case(json!({"module": u, "emitted": text})),
          );
        } else if !got.is_subset(&want) {
          run.violate("emitted-module-exports-new-names", format!("{u}: original {want:?}, emitted {got:?}"), case(json!({"module": u, "emitted": text})));
        }
        // kinds of retained exported declarations
        let oe = exports_of(&parsed_orig);
        let ee = exports_of(&parsed);
        for (name, kinds) in &ee.own {
          if let Some(ok) = oe.own.get(name) {
            // an expando function becomes function + namespace; a variable
            // holding a function expression stays a variable
            let extra: Vec<_> = kinds.difference(ok).filter(|k| !(**k == "namespace" && ok.contains("function"))).collect();
            let lost: Vec<_> = ok.difference(kinds).collect();
            if !extra.is_empty() || (!lost.is_empty() && !kinds.is_empty() && lost.iter().any(|k| **k != "re-export" && **k != "binding")) {
              run.violate(
                "exported-declaration-changes-kind",
                format!("{u}: `{name}` is {ok:?} in the original and {kinds:?} in the emitted module"),
                case(json!({"module": u, "emitted": text})),
              );
            }
          }
        }
        // written annotations carried over unchanged
        let so = signatures(&parsed_orig, orig);
        let se = signatures(&parsed, text);
        for (k, v) in &se {
          if let Some(ov) = so.get(k)
            && ov != v
          {
            // the documented normalisation: `p?: T` <-> `p: T | undefined`
            let norm = |s: &str| s.replace("|undefined", "");
            // parameter-property types of TS-private members become `any`;
            // interface/type/enum texts may lose nothing
            if k.ends_with("/accepts-undefined") {
              if ov == "yes" && v == "no" {
                run.violate(
                  "parameter-no-longer-accepts-undefined",
                  format!("{u}: `{k}`: the original parameter is optional or has a default value, the emitted one neither is optional nor has `undefined` in its type"),
                  case(json!({"module": u, "emitted": text})),
                );
              }
            } else if k.ends_with("/may-be-omitted") {
              run.violate(
                "parameter-optionality-by-position-differs",
                format!("{u}: `{k}`: {ov} in the original, {v} in the emitted module (a default before a required parameter becomes `T | undefined`, otherwise the parameter stays omittable)"),
                case(json!({"module": u, "emitted": text})),
              );
            } else if norm(ov) != norm(v) {
              run.violate(
                format!("annotation-not-carried-over:{}", k.rsplit('/').next().unwrap_or("").trim_end_matches(char::is_numeric)),
                format!("{u}: `{k}` is written `{ov}` in the original and `{v}` in the emitted module"),
                case(json!({"module": u, "emitted": text})),
              );
            }
          }
        }
        // declarations that are neither exported nor referenced are gone
        for m in unused {
          if text.contains(m.as_str()) {
            run.violate(
              "unused-private-declaration-survives",
              format!("{u}: `{m}` is neither exported nor referenced from the public API but appears in the emitted module"),
              case(json!({"module": u, "emitted": text})),
            );
          }
        }
      }
    }
  }
  let _ = any_diag;
}

fn body(which: Which, slots: usize) -> impl Fn(&Ch) -> Run + Sync + Send {
  move |ch: &Ch| {
    let mut run = Run::default();
    let g = gen_package(ch, slots);
    let dep_is_root = ch.choose("root_imports_dependency_package_too", 2) == 1;
    // history: build with the first entrypoint only, fast check, then a second
    // build on the same graph brings in the rest and fast check runs again
    let two_steps = (g.pkg.exports.len() > 1 || dep_is_root) && ch.flag("second_build_and_second_fast_check_pass");
    let root_idx: Vec<usize> = if dep_is_root { vec![0, 1] } else { vec![0] };
    let Some(r) = fast_check_steps(&[g.pkg.clone(), g.dep.clone()], &root_idx, None, ch, deno_graph::GraphKind::All, two_steps) else {
      run.violate("build-did-not-finish", "deadlock", json!({}));
      return run;
    };
    let case = |extra: Value| json!({"package": g.pkg.files.iter().map(|(p, s)| json!([p, s])).collect::<Vec<_>>(), "exports": g.pkg.exports, "workspace_member": g.pkg.workspace, "built_and_fast_checked_in_two_steps": two_steps, "declarations": g.decl_names, "references": g.ref_names, "detail": extra});
    if !r.graph_errors.is_empty() {
      run.violate("generated-package-does-not-build", format!("{:?}", r.graph_errors), case(json!({})));
      return run;
    }
    let mut entrypoints: Vec<String> = g.pkg.exports.iter().map(|(_, p)| g.pkg.url(p.trim_start_matches('.'))).collect();
    entrypoints.push(g.dep.url("/mod.ts"));
    check_result(which, &r, &entrypoints, &g.unused_markers, &mut run, &case);
    let with_output = r.modules.values().filter(|(_, s)| matches!(s, FcSlot::Module { .. })).count();
    let with_diag = r.modules.values().filter(|(_, s)| matches!(s, FcSlot::Diagnostics(_))).count();
    run.state_key = hash_of(&format!("{:?}{:?}{}{}", g.pkg.files, g.pkg.exports, g.pkg.workspace, two_steps));
    run.nontrivial = with_output > 0 && g.decl_names.len() >= 2;
    run.outcome_key = hash_of(&format!("{:?}", r.modules.values().map(|(_, s)| match s { FcSlot::Module { text, .. } => hash_of(text), FcSlot::Diagnostics(d) => hash_of(d), FcSlot::None => 0 }).collect::<Vec<_>>()));
    run.count("packages_with_output", (with_output > 0) as u64);
    run.count("packages_with_diagnostics", (with_diag > 0) as u64);
    if ch.describe() {
      run.sample = Some(case(json!({"modules_with_output": with_output, "modules_with_diagnostics": with_diag})));
    }
    run
  }
}

/// every package of tests/specs/graph/fast_check/*.txt
fn body_corpus(which: Which) -> impl Fn(&Ch) -> Run + Sync + Send {
  move |ch: &Ch| {
    let mut run = Run::default();
    let files: Vec<String> = crate::props::c08::corpus_files().into_iter().filter(|f| f.contains("/fast_check/")).collect();
    let idx = ch.shape("spec_file", files.len().max(1));
    let Some(path) = files.get(idx) else { return run };
    let content = std::fs::read_to_string(path).unwrap_or_default();
    let sections = crate::props::c08::spec_sources_all(&content);
    // registry packages found in the spec
    let mut pkgs: BTreeMap<(String, String), FcPackage> = BTreeMap::new();
    let mut manifests: BTreeMap<(String, String), Value> = BTreeMap::new();
    for (name, src) in &sections {
      if let Some(rest) = name.strip_prefix("https://jsr.io/@") {
        let parts: Vec<&str> = rest.splitn(3, '/').collect();
        if parts.len() == 3 {
          let pkg = format!("@{}/{}", parts[0], parts[1]);
          if let Some(ver) = parts[2].strip_suffix("_meta.json") {
            if let Ok(v) = serde_json::from_str::<Value>(src) {
              manifests.insert((pkg, ver.to_string()), v);
            }
          } else if let Some((ver, path)) = parts[2].split_once('/') {
            pkgs
              .entry((pkg.clone(), ver.to_string()))
              .or_insert_with(|| FcPackage { name: pkg.clone(), version: ver.to_string(), files: vec![], exports: vec![], workspace: false })
              .files
              .push((format!("/{path}"), src.clone()));
          }
        }
      }
    }
    let mut list: Vec<FcPackage> = vec![];
    for ((pkg, ver), mut p) in pkgs {
      if let Some(m) = manifests.get(&(pkg.clone(), ver.clone())) {
        match &m["exports"] {
          Value::String(s) => p.exports.push((".".into(), s.clone())),
          Value::Object(o) => {
            for (k, v) in o {
              if let Some(s) = v.as_str() {
                p.exports.push((k.clone(), s.to_string()));
              }
            }
          }
          _ => {}
        }
      }
      if !p.exports.is_empty() {
        list.push(p);
      }
    }
    if list.is_empty() {
      run.state_key = hash_of(path);
      return run;
    }
    // fast check each package as the first one (its exports are the roots);
    // the others are installed so that cross-package imports resolve
    for i in 0..list.len() {
      let mut order = list.clone();
      order.swap(0, i);
      let Some(r) = fast_check(&order, None, ch) else { continue };
      if !r.graph_errors.is_empty() {
        continue;
      }
      let case = |extra: Value| json!({"spec_file": path, "package": format!("{}@{}", order[0].name, order[0].version), "detail": extra});
      let entrypoints: Vec<String> = order[0].exports.iter().map(|(_, p)| order[0].url(p.trim_start_matches('.'))).collect();
      // only the first package's modules are judged
      let mut r2 = r;
      let prefix = order[0].url("/");
      r2.modules.retain(|u, _| u.starts_with(&prefix));
      check_result(which, &r2, &entrypoints, &[], &mut run, &case);
      run.count("corpus_packages", 1);
    }
    run.state_key = hash_of(path);
    run.nontrivial = true;
    run.outcome_key = hash_of(&(path, run.evals));
    if ch.describe() {
      run.sample = Some(json!({"spec_file": path, "packages": list.iter().map(|p| format!("{}@{}", p.name, p.version)).collect::<Vec<_>>()}));
    }
    run
  }
}

pub fn prop(which: Which, tier: Tier) -> Prop {
  let (id, what): (&'static str, &str) = match which {
    Which::C09 => ("C09", "every emitted module re-parses (scope analysis) as the same media type; no identifier that is unresolved in the output was a module-level declaration or import of the original; every name imported / re-exported from another module of the package is in the resolved export set of that module's emitted text; every relative specifier resolves to a module of the graph; the source map is well-formed JSON v3, every mapping lies inside both texts and maps identifiers to the same identifier (modifier keywords aside)"),
    Which::C10 => ("C10", "structural walk of every re-parsed emitted module: function / method / accessor / arrow bodies are empty or `return {} as never`, constructors at most a placeholder super call, no statements other than declarations, initialisers in the leavable grammar, every parameter typed or with a leavable default, every function-like except constructors and setters with a return type, TS-private members reduced to `declare private x: any`, no #private besides the brand marker, no decorators, no parameter properties"),
    Which::C11 => ("C11", "resolved export-name sets (own names, star re-exports, default) of the emitted entrypoints equal the originals' and are subsets for other modules; each retained exported declaration keeps its kind; every written parameter / return / property type annotation, type-parameter list, heritage clause, interface / type / enum text is carried over (modulo `| undefined` for optional parameters); declarations the generator marks as neither exported nor referenced are absent"),
  };
  let (slots, modes) = match tier {
    Tier::Quick => (3, vec![Mode::Deviations(1), Mode::Deviations(2), Mode::Deviations(3)]),
    Tier::Thorough => (3, vec![Mode::Deviations(2), Mode::Deviations(3), Mode::Deviations(4)]),
  };
  Prop {
    id,
    rule: format!("state = generated registry package (mod.ts with {slots} declaration slots from a 51-template alphabet - functions, consts, classes with every member kind, interfaces, types, enums, namespaces, expando, default exports, re-exports, import-equals, declare global, merged declarations, unused private declarations - each annotated through one of 18 reference forms incl. private types, namespace-qualified names, typeof, import types, renamed/default/namespace imports; b.ts with 6 variants; c.ts; 3 entrypoint sets) + every package of the fast-check spec corpus. Oracle: {what}. Non-trivial = package with >= 2 declarations that produced output."),
    assumptions: vec![
      "emitted text is re-parsed with the same swc parser the subject uses (common-mode risk); the source-map decoder and the export / signature extractors are the harness's own".into(),
      "deviation-bounded from the package with a single annotated declaration".into(),
      "@s/a is published to the registry or (one deviation) a local workspace member analysed with WorkspaceFastCheckOption::Enabled; fast_check_dts is off".into(),
      "wherever there is more than one thing for the root program to import, both histories are explored: one build + one pass, and: the graph is built and fast-checked with the first entrypoint only, then a second build on the same graph adds the other entrypoints / the dependency package and fast check runs again; the oracles apply to the final state".into(),
      "packages whose public API cannot be made explicit get diagnostics instead of output and are then only counted".into(),
    ],
    parts: vec![
      Part { name: "packages", body: Box::new(body(which, slots)), modes, what: "generated packages" },
      Part { name: "corpus", body: Box::new(body_corpus(which)), modes: vec![Mode::Full], what: "packages of tests/specs/graph/fast_check" },
    ],
    termination_property: false,
    min_outcomes: 10,
  }
}
