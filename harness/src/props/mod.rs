use crate::report::Prop;
use crate::report::Tier;

pub mod c14;

pub const ALL: &[&str] = &["C14"];

pub fn get(id: &str, tier: Tier) -> Option<Prop> {
  Some(match id {
    "C14" => c14::prop(tier),
    _ => return None,
  })
}
