use crate::report::Prop;
use crate::report::Tier;

pub mod c01;
pub mod c02;
pub mod c03;
pub mod c04;
pub mod c05;
pub mod c06;
pub mod c07;
pub mod c08;
pub mod fcprops;
pub mod c12;
pub mod c13;
pub mod c14;
pub mod c15;
pub mod c16;
pub mod c17;
pub mod c18;
pub mod c19;
pub mod c20;

pub const ALL: &[&str] = &["C01", "C02", "C03", "C04", "C05", "C06", "C07", "C08", "C09", "C10", "C11", "C12", "C13", "C14", "C15", "C16", "C17", "C18", "C19", "C20"];

pub fn get(id: &str, tier: Tier) -> Option<Prop> {
  Some(match id {
    "C01" => c01::prop(tier),
    "C02" => c02::prop(tier),
    "C03" => c03::prop(tier),
    "C04" => c04::prop(tier),
    "C05" => c05::prop(tier),
    "C06" => c06::prop(tier),
    "C07" => c07::prop(tier),
    "C08" => c08::prop(tier),
    "C09" => fcprops::prop(fcprops::Which::C09, tier),
    "C10" => fcprops::prop(fcprops::Which::C10, tier),
    "C11" => fcprops::prop(fcprops::Which::C11, tier),
    "C12" => c12::prop(tier),
    "C13" => c13::prop(tier),
    "C14" => c14::prop(tier),
    "C15" => c15::prop(tier),
    "C16" => c16::prop(tier),
    "C17" => c17::prop(tier),
    "C18" => c18::prop(tier),
    "C19" => c19::prop(tier),
    "C20" => c20::prop(tier),
    _ => return None,
  })
}
