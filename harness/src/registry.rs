//! JSR registry fixtures: package meta.json / version manifests rendered into a
//! ScriptedLoader.

use crate::env::*;
use deno_graph::MediaType;
use deno_graph::source::LoaderChecksum;
use serde_json::Value;
use serde_json::json;

#[derive(Clone, Debug)]
pub struct RegVersion {
  pub version: String,
  pub yanked: bool,
  pub created_at: Option<String>,
  pub exports: Value,
  /// (path beginning with '/', content)
  pub files: Vec<(String, Vec<u8>)>,
  /// embed `moduleGraph2` computed by this crate's analyzer from the sources
  pub embed_module_graph: bool,
  /// files left out of the manifest's checksum table
  pub manifest_omit: Vec<String>,
  /// override the whole version manifest text (malformed metadata)
  pub raw_manifest: Option<String>,
}

impl RegVersion {
  pub fn new(version: &str, files: &[(&str, &str)]) -> Self {
    RegVersion {
      version: version.into(),
      yanked: false,
      created_at: None,
      exports: json!({".": files.first().map(|f| format!(".{}", f.0)).unwrap_or("./mod.ts".into())}),
      files: files
        .iter()
        .map(|(p, c)| (p.to_string(), c.as_bytes().to_vec()))
        .collect(),
      embed_module_graph: false,
      manifest_omit: vec![],
      raw_manifest: None,
    }
  }

  pub fn manifest_json(&self, name: &str) -> Value {
    let mut manifest = serde_json::Map::new();
    for (p, c) in &self.files {
      if self.manifest_omit.contains(p) {
        continue;
      }
      manifest.insert(
        p.clone(),
        json!({"size": c.len(), "checksum": format!("sha256-{}", LoaderChecksum::r#gen(c))}),
      );
    }
    let mut v = json!({
      "manifest": manifest,
      "exports": self.exports,
    });
    if self.embed_module_graph {
      let mut mg = serde_json::Map::new();
      for (p, c) in &self.files {
        let spec = url(&format!("https://jsr.io/{name}/{}{p}", self.version));
        let mt = MediaType::from_specifier(&spec);
        if !matches!(
          mt,
          MediaType::TypeScript | MediaType::JavaScript | MediaType::Tsx | MediaType::Jsx | MediaType::Dts | MediaType::Mts | MediaType::Mjs
        ) {
          continue;
        }
        let analyzer = deno_graph::ast::ParserModuleAnalyzer::default();
        if let Ok(text) = std::str::from_utf8(c)
          && let Ok(info) = analyzer.analyze_sync(&spec, text.into(), mt)
        {
          mg.insert(p.clone(), serde_json::to_value(&info).unwrap());
        }
      }
      v["moduleGraph2"] = Value::Object(mg);
    }
    v
  }
}

#[derive(Clone, Debug)]
pub struct RegPackage {
  pub name: String,
  pub versions: Vec<RegVersion>,
  pub raw_meta: Option<String>,
}

impl RegPackage {
  pub fn meta_json(&self) -> Value {
    let mut versions = serde_json::Map::new();
    for v in &self.versions {
      let mut o = serde_json::Map::new();
      if v.yanked {
        o.insert("yanked".into(), json!(true));
      }
      if let Some(c) = &v.created_at {
        o.insert("createdAt".into(), json!(c));
      }
      versions.insert(v.version.clone(), Value::Object(o));
    }
    json!({"versions": versions})
  }

  pub fn meta_url(&self) -> String {
    format!("https://jsr.io/{}/meta.json", self.name)
  }
  pub fn version_meta_url(&self, v: &RegVersion) -> String {
    format!("https://jsr.io/{}/{}_meta.json", self.name, v.version)
  }
  pub fn file_url(&self, v: &RegVersion, path: &str) -> String {
    format!("https://jsr.io/{}/{}{}", self.name, v.version, path)
  }

  pub fn install(&self, loader: &ScriptedLoader) {
    loader.add_text(
      &self.meta_url(),
      &self.raw_meta.clone().unwrap_or_else(|| self.meta_json().to_string()),
    );
    for v in &self.versions {
      loader.add_text(
        &self.version_meta_url(v),
        &v.raw_manifest
          .clone()
          .unwrap_or_else(|| v.manifest_json(&self.name).to_string()),
      );
      for (p, c) in &v.files {
        loader.add(&self.file_url(v, p), Entry::bytes(c));
      }
    }
  }
}
