//! Property driver: runs the parts of a property under the tier's bounds,
//! applies the known-findings filter, writes evidence and replay artefacts and
//! decides the exit code.

use crate::engine::*;
use serde_json::Value;
use serde_json::json;
use std::collections::BTreeMap;
use std::time::Duration;
use std::time::Instant;

#[derive(Clone, Copy, PartialEq, Debug)]
pub enum Tier {
  Quick,
  Thorough,
}

pub type Body = Box<dyn Fn(&Ch) -> Run + Sync + Send>;

pub struct Part {
  pub name: &'static str,
  pub body: Body,
  /// modes to run in order (iterated bound); the last completed one is the
  /// bound reported
  pub modes: Vec<Mode>,
  pub what: &'static str,
}

pub struct Prop {
  pub id: &'static str,
  pub rule: String,
  pub assumptions: Vec<String>,
  pub parts: Vec<Part>,
  /// set when panics/timeouts inside the subject are part of this property
  pub termination_property: bool,
  /// minimum number of distinct outcomes below which the run is vacuous
  pub min_outcomes: usize,
}

pub fn verif_root() -> std::path::PathBuf {
  std::env::var("DGMC_VERIF_ROOT")
    .map(Into::into)
    .unwrap_or_else(|_| "/verif".into())
}

#[derive(serde::Deserialize, Debug, Clone)]
pub struct Finding {
  pub property: String,
  pub signature: String,
  pub status: String,
  #[serde(default)]
  pub commit: Option<String>,
  pub what: String,
}

pub fn load_known() -> Vec<Finding> {
  let p = verif_root().join("known_findings.json");
  let Ok(text) = std::fs::read_to_string(&p) else {
    return vec![];
  };
  let v: Value = serde_json::from_str(&text).expect("known_findings.json parses");
  serde_json::from_value(v["findings"].clone()).expect("known_findings.json shape")
}

pub struct PartOutcome {
  pub name: &'static str,
  pub what: &'static str,
  pub stats: Stats,
  pub completed_mode: Option<Mode>,
  pub exhaustive: bool,
}

pub fn run_prop(prop: &Prop, tier: Tier, only_part: Option<&str>) -> i32 {
  let start = Instant::now();
  let threads = default_threads();
  let (wall_cap_total, run_budget) = match tier {
    Tier::Quick => (
      Duration::from_secs(env_u64("DGMC_QUICK_WALL_S", 150)),
      Duration::from_secs(20),
    ),
    Tier::Thorough => (
      Duration::from_secs(env_u64("DGMC_THOROUGH_WALL_S", 900)),
      Duration::from_secs(60),
    ),
  };
  // watchdog
  let watchdog_id = prop.id;
  let termination = prop.termination_property;
  std::thread::spawn(move || {
    loop {
      std::thread::sleep(Duration::from_millis(250));
      let w: Vec<WatchSlot> = WATCH.lock().unwrap().clone();
      for slot in w.iter().filter_map(|s| s.lock().unwrap().clone()) {
        if slot.0.elapsed() > run_budget {
          let path = write_replay(
            watchdog_id,
            "watchdog",
            "?",
            &slot.1,
            &json!({"message": "run exceeded its wall budget (non-termination?)"}),
          );
          if termination {
            println!("VIOLATION property={watchdog_id} replay={}", path.display());
            std::process::exit(1);
          } else {
            eprintln!(
              "MACHINERY: run exceeded budget, prefix in {}",
              path.display()
            );
            std::process::exit(2);
          }
        }
      }
    }
  });

  let known_early = load_known();
  let mut outcomes: Vec<PartOutcome> = Vec::new();
  let n_parts = prop
    .parts
    .iter()
    .filter(|p| only_part.is_none_or(|o| o == p.name))
    .count()
    .max(1);
  let mut machinery: Option<String> = None;
  for part in &prop.parts {
    if let Some(o) = only_part
      && o != part.name
    {
      continue;
    }
    let remaining = wall_cap_total.saturating_sub(start.elapsed());
    let left = n_parts - outcomes.len();
    let part_cap = remaining / (left.max(1) as u32);
    let part_start = Instant::now();
    let mut best: Option<(Stats, Mode)> = None; // last completed level
    let mut partial: Option<(Stats, Mode)> = None; // a level cut by a cap
    let mut viol_acc: Vec<(Vec<u32>, Violation)> = Vec::new();
    let mut cap_note: Option<String> = None;
    for (mi, mode) in part.modes.iter().enumerate() {
      let cap = part_cap.saturating_sub(part_start.elapsed());
      if mi > 0 && cap < Duration::from_millis(1500) {
        cap_note = Some(format!("{mode:?} not started: part wall budget used"));
        break;
      }
      let cfg = ExploreCfg {
        mode: *mode,
        threads,
        wall_cap: cap.max(Duration::from_secs(2)),
        run_cap: env_u64("DGMC_RUN_CAP", u64::MAX),
        run_budget,
      };
      let mut st = explore(&part.body, &cfg);
      if let Some(m) = st.machinery.take() {
        machinery = Some(format!("{}::{}: {m}", prop.id, part.name));
        break;
      }
      viol_acc.extend(st.violations.iter().cloned());
      if let Some(c) = &st.capped {
        cap_note = Some(format!("{mode:?}: {c}"));
        partial = Some((st, *mode));
        break;
      }
      best = Some((st, *mode));
      let any_unknown = viol_acc.iter().any(|(_, v)| {
        !known_early.iter().any(|f| {
          f.property == prop.id && f.status == "known" && f.signature == v.signature
        })
      });
      if any_unknown {
        break; // the first counterexample has the fewest deviations
      }
    }
    if machinery.is_some() {
      break;
    }
    let (mut stats, mode, completed) = match (best, partial) {
      (Some((s, m)), _) => (s, m, true),
      (None, Some((s, m))) => (s, m, false),
      (None, None) => unreachable!(),
    };
    stats.violations = viol_acc;
    stats
      .violations
      .sort_by(|a, b| a.0.len().cmp(&b.0.len()).then(a.0.cmp(&b.0)));
    stats
      .violations
      .dedup_by(|a, b| a.0 == b.0 && a.1.signature == b.1.signature);
    if let Some(c) = &cap_note {
      eprintln!("[{}::{}] {c}", prop.id, part.name);
    }
    let exhaustive = completed;
    let _ = &cap_note;
    stats.capped = if completed { cap_note.clone().map(|c| format!("next level: {c}")) } else { cap_note.clone() };
    outcomes.push(PartOutcome {
      name: part.name,
      what: part.what,
      completed_mode: if completed { Some(mode) } else { None },
      exhaustive: completed && exhaustive,
      stats,
    });
  }

  // a machinery error in a later part does not erase a violation that an
  // earlier part found and that replays deterministically: verdicts first
  let known = load_known();
  if let Some(m) = &machinery {
    let earlier_violation = outcomes.iter().any(|po| {
      po.stats.violations.iter().any(|(_, v)| !known.iter().any(|f| f.property == prop.id && f.status == "known" && f.signature == v.signature))
    });
    if !earlier_violation {
      eprintln!("MACHINERY ERROR: {m}");
      return 2;
    }
    eprintln!("note: {m} (a later part ended in a machinery error; reporting what the parts before it found)");
  }

  // ---- verdicts
  let mut exit = 0;
  let mut known_lines: BTreeMap<String, String> = BTreeMap::new();
  let mut unknown: BTreeMap<String, (String, Vec<u32>, Violation)> = BTreeMap::new();
  for po in &outcomes {
    for (prefix, v) in &po.stats.violations {
      let k = known.iter().find(|f| {
        f.property == prop.id && f.status == "known" && f.signature == v.signature
      });
      if let Some(k) = k {
        known_lines
          .entry(v.signature.clone())
          .or_insert_with(|| k.what.clone());
      } else {
        unknown
          .entry(format!("{}::{}", po.name, v.signature))
          .or_insert_with(|| (po.name.to_string(), prefix.clone(), v.clone()));
      }
    }
  }
  for (sig, what) in &known_lines {
    println!("KNOWN-FINDING: property={} {} [{}]", prop.id, what, sig);
  }
  let mut n_viol = 0;
  for (_key, (part_name, prefix, v)) in &unknown {
    // determinism: the failing prefix must reproduce the same violation twice
    let part = prop.parts.iter().find(|p| p.name == part_name).unwrap();
    let mut sigs = Vec::new();
    let mut sample = Value::Null;
    for _ in 0..2 {
      match run_once(&part.body, prefix, true) {
        RunResult::Done(run, _) => {
          sigs.push(
            run
              .violations
              .iter()
              .map(|x| x.signature.clone())
              .collect::<Vec<_>>(),
          );
          if let Some(s) = run.sample {
            sample = s;
          }
        }
        RunResult::Machinery(m) => {
          eprintln!("MACHINERY ERROR while replaying: {m}");
          return 2;
        }
      }
    }
    if sigs[0] != sigs[1] || !sigs[0].contains(&v.signature) {
      eprintln!(
        "MACHINERY ERROR: violation {} did not replay deterministically ({:?} vs {:?}); the harness does not own some nondeterminism",
        v.signature, sigs[0], sigs[1]
      );
      return 2;
    }
    let path = write_replay(
      prop.id,
      part_name,
      &v.signature,
      prefix,
      &json!({"message": v.message, "detail": v.detail, "case": sample}),
    );
    println!("VIOLATION property={} replay={}", prop.id, path.display());
    eprintln!("  [{}] {}: {}", part_name, v.signature, v.message);
    n_viol += 1;
    exit = 1;
  }

  // ---- vacuity
  let total_outcomes: usize = outcomes.iter().map(|o| o.stats.outcomes.len()).sum();
  let total_runs: u64 = outcomes.iter().map(|o| o.stats.runs).sum();
  if exit == 0 && only_part.is_none() && total_outcomes < prop.min_outcomes {
    eprintln!(
      "MACHINERY ERROR: vacuous exploration ({total_outcomes} distinct outcomes from {total_runs} runs, need {})",
      prop.min_outcomes
    );
    exit = 2;
  }

  // ---- evidence
  let mut states = 0usize;
  let mut nontrivial = 0usize;
  let mut evals = 0u64;
  let mut samples = Vec::new();
  let mut parts_json = Vec::new();
  let mut all_exhaustive = true;
  for po in &outcomes {
    states += po.stats.states.len();
    nontrivial += po.stats.nontrivial.len();
    evals += po.stats.evals;
    for s in po.stats.samples.iter().take(4) {
      samples.push(json!({"part": po.name, "case": s}));
    }
    all_exhaustive &= po.exhaustive;
    parts_json.push(json!({
      "part": po.name,
      "what": po.what,
      "runs": po.stats.runs,
      "evaluations": po.stats.evals,
      "distinct_states": po.stats.states.len(),
      "distinct_nontrivial": po.stats.nontrivial.len(),
      "distinct_outcomes": po.stats.outcomes.len(),
      "bound_completed": po.completed_mode.map(|m| format!("{m:?}")),
      "exhaustive_within_bound": po.exhaustive,
      "cap_hit": po.stats.capped,
      "max_choice_points": po.stats.max_points,
      "max_arity": po.stats.max_arity,
      "max_deviations_in_a_run": po.stats.max_deviations_seen,
      "counters": po.stats.counters,
      "violations_found": po.stats.violations.len(),
    }));
  }
  let tier_s = match tier {
    Tier::Quick => "quick",
    Tier::Thorough => "thorough",
  };
  let ev = json!({
    "property_id": prop.id,
    "tier": tier_s,
    "seed": std::env::var("VERIF_SEED").ok().and_then(|s| s.parse::<i64>().ok()).unwrap_or(0),
    "level": "model_checking",
    "coverage": {
      "states": states,
      "transitions": total_runs,
      "traces_validated_against_impl": total_runs,
      "evaluations": evals,
      "distinct_nontrivial": nontrivial,
      "distinct_outcomes": total_outcomes,
      "rule": prop.rule,
      "samples": samples,
      "exhaustive": all_exhaustive,
      "parts": parts_json,
      "known_findings_matched": known_lines.keys().collect::<Vec<_>>(),
      "explanation": "stateless bounded-exhaustive exploration of the real deno_graph code: every run executes the implementation under a harness-owned environment; states = distinct scenarios (by canonical hash), transitions = runs; every run is validated against the implementation because it *is* the implementation",
      "threads": threads,
    },
    "assumptions": prop.assumptions,
    "wall_s": start.elapsed().as_secs_f64(),
    "violations": n_viol,
  });
  if only_part.is_none() {
    let dir = verif_root().join("evidence");
    std::fs::create_dir_all(&dir).ok();
    let path = dir.join(format!("{}.json", prop.id));
    std::fs::write(&path, serde_json::to_string_pretty(&ev).unwrap() + "\n").expect("write evidence");
    // <id>.json is rewritten by every run; keep the last run of each tier as well
    let per_tier = dir.join("by_tier").join(format!("{}.{}.json", prop.id, tier_s));
    std::fs::create_dir_all(per_tier.parent().unwrap()).ok();
    std::fs::write(&per_tier, serde_json::to_string_pretty(&ev).unwrap() + "\n").ok();
  }
  eprintln!(
    "[{}] tier={} runs={} evals={} states={} nontrivial={} outcomes={} exhaustive={} wall={:.1}s exit={}",
    prop.id,
    tier_s,
    total_runs,
    evals,
    states,
    nontrivial,
    total_outcomes,
    all_exhaustive,
    start.elapsed().as_secs_f64(),
    exit
  );
  exit
}

fn env_u64(name: &str, default: u64) -> u64 {
  std::env::var(name)
    .ok()
    .and_then(|s| s.parse().ok())
    .unwrap_or(default)
}

pub fn write_replay(
  id: &str,
  part: &str,
  signature: &str,
  prefix: &[u32],
  extra: &Value,
) -> std::path::PathBuf {
  let dir = verif_root().join("replays");
  std::fs::create_dir_all(&dir).ok();
  let name = format!(
    "{}-{}-{:016x}.json",
    id,
    part,
    hash_of(&(signature, prefix))
  );
  let path = dir.join(name);
  let v = json!({
    "property": id,
    "part": part,
    "signature": signature,
    "prefix": prefix,
    "info": extra,
    "how_to_replay": format!("./check {id} --replay <this file>"),
  });
  std::fs::write(&path, serde_json::to_string_pretty(&v).unwrap() + "\n").ok();
  path
}

/// `dgmc <id> --replay <file>`: rerun one recorded prefix without the
/// explorer and print what it does. Exit 1 if it (still) violates.
pub fn replay(prop: &Prop, file: &str) -> i32 {
  let text = std::fs::read_to_string(file).expect("read replay file");
  let v: Value = serde_json::from_str(&text).expect("replay json");
  let part_name = v["part"].as_str().unwrap_or("");
  let prefix: Vec<u32> = v["prefix"]
    .as_array()
    .map(|a| a.iter().map(|x| x.as_u64().unwrap() as u32).collect())
    .unwrap_or_default();
  let Some(part) = prop.parts.iter().find(|p| p.name == part_name) else {
    eprintln!("no part {part_name} in {}", prop.id);
    return 2;
  };
  match run_once(&part.body, &prefix, true) {
    RunResult::Machinery(m) => {
      eprintln!("MACHINERY ERROR: {m}");
      2
    }
    RunResult::Done(run, trace) => {
      println!(
        "choices: {}",
        trace
          .iter()
          .map(|p| format!("{}={}/{}", p.label, p.pick, p.arity))
          .collect::<Vec<_>>()
          .join(" ")
      );
      if let Some(s) = &run.sample {
        println!("case: {}", serde_json::to_string_pretty(s).unwrap());
      }
      if run.violations.is_empty() {
        println!("replay: property holds on this run");
        0
      } else {
        for v in &run.violations {
          println!("replay: VIOLATED [{}] {}", v.signature, v.message);
          println!("{}", serde_json::to_string_pretty(&v.detail).unwrap());
        }
        1
      }
    }
  }
}
