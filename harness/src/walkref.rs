//! Reference semantics of a walk and of its error listing, written over the
//! graph's public data only (serialised slot list, `redirects`, `imports`,
//! `Module::dependencies`), as a set-based fixpoint.

use deno_graph::CheckJsOption;
use deno_graph::GraphKind;
use deno_graph::MediaType;
use deno_graph::Module;
use deno_graph::ModuleError;
use deno_graph::ModuleErrorKind;
use deno_graph::ModuleGraph;
use deno_graph::ModuleGraphError;
use deno_graph::ModuleSpecifier;
use deno_graph::Resolution;
use deno_graph::ResolutionError;
use std::collections::BTreeSet;
use std::collections::VecDeque;

#[derive(Clone, Copy, Debug)]
pub enum CheckJs {
  True,
  False,
  /// custom resolver: true exactly for specifiers whose path contains "m1"
  Custom,
}

#[derive(Debug)]
pub struct CustomCheckJs;
impl deno_graph::CheckJsResolver for CustomCheckJs {
  fn resolve(&self, specifier: &ModuleSpecifier) -> bool {
    specifier.path().contains("m1")
  }
}
pub static CUSTOM: CustomCheckJs = CustomCheckJs;

impl CheckJs {
  pub fn option(self) -> CheckJsOption<'static> {
    match self {
      CheckJs::True => CheckJsOption::True,
      CheckJs::False => CheckJsOption::False,
      CheckJs::Custom => CheckJsOption::Custom(&CUSTOM),
    }
  }
  fn resolve(self, s: &ModuleSpecifier) -> bool {
    match self {
      CheckJs::True => true,
      CheckJs::False => false,
      CheckJs::Custom => s.path().contains("m1"),
    }
  }
}

#[derive(Clone, Copy, Debug)]
pub struct Opts {
  pub kind: GraphKind,
  pub follow_dynamic: bool,
  pub check_js: CheckJs,
  pub prefer_fast_check: bool,
}

impl Opts {
  pub fn walk_options(&self) -> deno_graph::WalkOptions<'static> {
    deno_graph::WalkOptions {
      check_js: self.check_js.option(),
      follow_dynamic: self.follow_dynamic,
      kind: self.kind,
      prefer_fast_check_graph: self.prefer_fast_check,
    }
  }
}

pub fn is_checkable(o: &Opts, spec: &ModuleSpecifier, mt: MediaType) -> bool {
  use MediaType::*;
  match mt {
    TypeScript | Mts | Cts | Dts | Dmts | Dcts | Tsx | Json | Wasm => true,
    JavaScript | Jsx | Mjs | Cjs => o.check_js.resolve(spec),
    _ => false,
  }
}

pub enum Slot<'a> {
  Module(&'a Module),
  Err(&'a ModuleError),
  Redirect(&'a ModuleSpecifier),
  Nothing,
}

pub struct SlotView {
  pub slots: BTreeSet<ModuleSpecifier>,
}

impl SlotView {
  /// The set of specifiers that own a slot: the serialised `modules` list is
  /// exactly the slot table.
  pub fn new(g: &ModuleGraph) -> Self {
    let v = serde_json::to_value(g).unwrap();
    let slots = v["modules"]
      .as_array()
      .map(|a| {
        a.iter()
          .filter_map(|m| m["specifier"].as_str())
          .filter_map(|s| ModuleSpecifier::parse(s).ok())
          .collect()
      })
      .unwrap_or_default();
    SlotView { slots }
  }

  /// slot first, then redirect (the walk's documented precedence)
  pub fn at<'a>(&self, g: &'a ModuleGraph, s: &ModuleSpecifier) -> Slot<'a> {
    if self.slots.contains(s) {
      // an own slot: find it in the listing (first occurrence is the slot's)
      for (k, r) in g.specifiers() {
        if k == s {
          return match r {
            Ok(m) => Slot::Module(m),
            Err(e) => Slot::Err(e),
          };
        }
      }
      Slot::Nothing
    } else if let Some(t) = g.redirects.get(s) {
      Slot::Redirect(t)
    } else {
      Slot::Nothing
    }
  }
}

pub struct WalkRef {
  /// specifiers the walk must yield (modules, errors and redirect sources)
  pub yielded: BTreeSet<ModuleSpecifier>,
  /// keys of the errors the walk must report
  pub errors: BTreeSet<String>,
}

pub fn range_key(r: &deno_graph::Range) -> String {
  format!(
    "{}@{}:{}",
    r.specifier, r.range.start.line, r.range.start.character
  )
}

pub fn error_key(e: &ModuleGraphError) -> String {
  match e {
    ModuleGraphError::ModuleError(e) => format!("slot:{}", e.specifier()),
    ModuleGraphError::ResolutionError(r) => format!("code-res:{}", range_key(r.range())),
    ModuleGraphError::TypesResolutionError(r) => format!("type-res:{}", range_key(r.range())),
  }
}

/// `skip_deps_of`: entries after whose yield the caller asks to skip the
/// dependencies (`skip_previous_dependencies`).
pub fn reference(
  g: &ModuleGraph,
  view: &SlotView,
  roots: &[ModuleSpecifier],
  o: &Opts,
  skip_deps_of: &BTreeSet<ModuleSpecifier>,
) -> WalkRef {
  let include_types = o.kind != GraphKind::CodeOnly;
  let mut seen: BTreeSet<ModuleSpecifier> = BTreeSet::new();
  let mut work: VecDeque<ModuleSpecifier> = VecDeque::new();
  let mut out = WalkRef {
    yielded: BTreeSet::new(),
    errors: BTreeSet::new(),
  };
  for r in roots {
    if seen.insert(r.clone()) {
      work.push_back(r.clone());
    }
  }
  for gi in g.imports.values() {
    for d in gi.dependencies.values() {
      let mut targets = vec![&d.maybe_code];
      if include_types {
        targets.push(&d.maybe_type);
      }
      for t in targets {
        if let Some(s) = t.maybe_specifier()
          && seen.insert(s.clone())
        {
          work.push_back(s.clone());
        }
      }
    }
  }
  let missing_at = |t: &ModuleSpecifier| -> Option<&ModuleError> {
    // follow redirects the way the walk does (a slot wins over a redirect)
    let mut cur = t.clone();
    let mut hops = BTreeSet::new();
    loop {
      if !hops.insert(cur.clone()) {
        return None;
      }
      match view.at(g, &cur) {
        Slot::Err(e) if matches!(e.as_kind(), ModuleErrorKind::Missing { .. }) => return Some(e),
        Slot::Redirect(n) => cur = n.clone(),
        _ => return None,
      }
    }
  };
  let mut in_place_candidates: BTreeSet<String> = BTreeSet::new();
  while let Some(s) = work.pop_front() {
    match view.at(g, &s) {
      Slot::Nothing => {}
      Slot::Redirect(t) => {
        out.yielded.insert(s.clone());
        if !skip_deps_of.contains(&s) && seen.insert(t.clone()) {
          work.push_back(t.clone());
        }
      }
      Slot::Err(e) => {
        out.yielded.insert(s.clone());
        // a Missing entry is reported in place (at the import that reaches
        // it) when dynamic imports are followed; everything else here
        let in_place = o.follow_dynamic && matches!(e.as_kind(), ModuleErrorKind::Missing { .. });
        if !in_place {
          out.errors.insert(format!("slot:{}", e.specifier()));
        } else {
          in_place_candidates.insert(format!("slot:{}", e.specifier()));
        }
      }
      Slot::Module(m) => {
        if let Module::Js(js) = m
          && include_types
        {
          if let Some(td) = &js.maybe_types_dependency
            && let Some(ts) = td.dependency.maybe_specifier()
          {
            if seen.insert(ts.clone()) {
              work.push_back(ts.clone());
            }
            if o.kind == GraphKind::TypesOnly {
              continue; // replaced by its types dependency
            }
          } else if o.kind == GraphKind::TypesOnly && !is_checkable(o, &js.specifier, js.media_type) {
            continue; // unchecked JavaScript is not part of a types-only walk
          }
        }
        out.yielded.insert(s.clone());
        // errors attached to this module
        let mut check = |text: &str, res: &Resolution, is_dynamic: bool, is_types: bool| {
          let tag = if is_types { "type-res" } else { "code-res" };
          match res {
            Resolution::None => {}
            Resolution::Err(e) => {
              out.errors.insert(format!("{tag}:{}", range_key(e.range())));
            }
            Resolution::Ok(r) => {
              let from = m.specifier().scheme();
              let to = r.specifier.scheme();
              if from == "https" && to == "http" {
                out.errors.insert(format!("{tag}:{}", range_key(&r.range)));
              } else if matches!(from, "https" | "http")
                && to == "file"
                && text.to_lowercase().starts_with("file://")
              {
                out.errors.insert(format!("{tag}:{}", range_key(&r.range)));
              } else if o.follow_dynamic
                && let Some(e) = missing_at(&r.specifier)
              {
                let _ = is_dynamic;
                out.errors.insert(format!("slot:{}", e.specifier()));
              }
            }
          }
        };
        if include_types
          && let Some(td) = m.maybe_types_dependency()
        {
          check(&td.specifier, &td.dependency, false, true);
        }
        let check_types = include_types && is_checkable(o, m.specifier(), m.media_type());
        let deps = if check_types && o.prefer_fast_check {
          // from the fields, not through Module::dependencies_prefer_fast_check():
          // a JS module that carries a fast-check module contributes that
          // module's dependencies, every other module its own
          match m {
            deno_graph::Module::Js(js) => match &js.fast_check {
              Some(deno_graph::FastCheckTypeModuleSlot::Module(fc)) => &fc.dependencies,
              _ => &js.dependencies,
            },
            other => other.dependencies(),
          }
        } else {
          m.dependencies()
        };
        for (text, d) in deps {
          if o.follow_dynamic || !d.is_dynamic {
            check(text, &d.maybe_code, d.is_dynamic, false);
            if check_types {
              check(text, &d.maybe_type, d.is_dynamic, true);
            }
          }
        }
        if skip_deps_of.contains(&s) {
          continue;
        }
        for d in deps.values() {
          if d.is_dynamic && !o.follow_dynamic {
            continue;
          }
          let mut targets = vec![&d.maybe_code];
          if include_types {
            targets.push(&d.maybe_type);
          }
          for t in targets {
            if let Some(ts) = t.maybe_specifier()
              && seen.insert(ts.clone())
            {
              work.push_back(ts.clone());
            }
          }
        }
      }
    }
  }
  // "a reachable failure is never silently skipped": a Missing entry that no
  // followed import reports in place (a root, a configured import) is still
  // a reachable failure
  for c in in_place_candidates {
    out.errors.insert(c);
  }
  out
}

pub fn res_err_kind(e: &ResolutionError) -> &'static str {
  match e {
    ResolutionError::InvalidDowngrade { .. } => "InvalidDowngrade",
    ResolutionError::InvalidJsrHttpsTypesImport { .. } => "InvalidJsrHttpsTypesImport",
    ResolutionError::InvalidLocalImport { .. } => "InvalidLocalImport",
    ResolutionError::ResolverError { .. } => "ResolverError",
    ResolutionError::InvalidSpecifier { .. } => "InvalidSpecifier",
  }
}
