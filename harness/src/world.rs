//! World DSL: a finite map specifier -> entry, generated from chooser
//! decisions, rendered to source text (the renderer remembers what it wrote).

use crate::engine::Ch;
use crate::env::*;
use serde_json::Value;
use serde_json::json;

#[derive(Clone, Copy, PartialEq, Eq, Hash, Debug)]
pub enum Kind {
  Ts,
  Js,
  Dts,
  Tsx,
  Jsx,
  Json,
  Missing,
  Redirect,
  Txt,
  HeaderTs,
  External,
  Error,
  Wasm,
  /// syntactically invalid TypeScript
  BadSyntax,
}

pub const KINDS: &[Kind] = &[
  Kind::Ts,
  Kind::Js,
  Kind::Dts,
  Kind::Tsx,
  Kind::Jsx,
  Kind::Json,
  Kind::Missing,
  Kind::Redirect,
  Kind::Txt,
  Kind::HeaderTs,
  Kind::External,
  Kind::Error,
  Kind::Wasm,
  Kind::BadSyntax,
];

impl Kind {
  pub fn has_source(self) -> bool {
    matches!(
      self,
      Kind::Ts | Kind::Js | Kind::Dts | Kind::Tsx | Kind::Jsx | Kind::HeaderTs
    )
  }
  pub fn is_ts(self) -> bool {
    matches!(self, Kind::Ts | Kind::Dts | Kind::Tsx | Kind::HeaderTs)
  }
  pub fn is_jsx(self) -> bool {
    matches!(self, Kind::Tsx | Kind::Jsx)
  }
  pub fn file_name(self, i: usize) -> String {
    match self {
      Kind::Ts | Kind::Missing | Kind::Redirect | Kind::External | Kind::Error | Kind::BadSyntax => {
        format!("m{i}.ts")
      }
      Kind::Js => format!("m{i}.js"),
      Kind::Dts => format!("m{i}.d.ts"),
      Kind::Tsx => format!("m{i}.tsx"),
      Kind::Jsx => format!("m{i}.jsx"),
      Kind::Json => format!("m{i}.json"),
      Kind::Txt => format!("m{i}.txt"),
      Kind::HeaderTs => format!("m{i}"),
      Kind::Wasm => format!("m{i}.wasm"),
    }
  }
}

#[derive(Clone, Copy, PartialEq, Eq, Hash, Debug)]
pub enum Form {
  Import,
  Dynamic,
  ImportType,
  SideEffect,
  ExportStar,
  ExportNamed,
  ExportType,
  /// static import + dynamic import of the same specifier
  StaticAndDynamic,
  /// dynamic first, then static
  DynamicAndStatic,
  RefPath,
  RefTypes,
  /// `// @ts-types="<types target>"` on an import of the target
  TsTypesPragma,
  SelfTypes,
  JsDoc,
  ImportSource,
  ImportEquals,
  DeclareModule,
  ImportTypeExpr,
  JsxPragma,
  Require,
  /// `namespace N { export type I = import("T").X; }`
  ImportTypeInNamespace,
  /// `namespace N { export const d = import("T"); }`
  DynamicInNamespace,
}

pub fn forms_for(kind: Kind) -> Vec<Form> {
  use Form::*;
  let mut v = vec![Import, Dynamic];
  match kind {
    Kind::Ts | Kind::HeaderTs | Kind::Tsx => {
      v.extend([
        ImportType,
        SideEffect,
        ExportStar,
        ExportNamed,
        ExportType,
        StaticAndDynamic,
        DynamicAndStatic,
        RefPath,
        RefTypes,
        TsTypesPragma,
        SelfTypes,
        ImportSource,
        ImportEquals,
        DeclareModule,
        ImportTypeExpr,
        ImportTypeInNamespace,
        DynamicInNamespace,
      ]);
      if kind == Kind::Tsx {
        v.push(JsxPragma);
      }
    }
    Kind::Js | Kind::Jsx => {
      v.extend([
        SideEffect,
        ExportStar,
        ExportNamed,
        StaticAndDynamic,
        DynamicAndStatic,
        RefPath,
        RefTypes,
        TsTypesPragma,
        SelfTypes,
        JsDoc,
        ImportSource,
        Require,
      ]);
      if kind == Kind::Jsx {
        v.push(JsxPragma);
      }
    }
    Kind::Dts => {
      v = vec![
        Import,
        ImportType,
        ExportStar,
        ExportNamed,
        ExportType,
        RefPath,
        RefTypes,
        DeclareModule,
        ImportTypeExpr,
      ];
    }
    _ => unreachable!(),
  }
  v
}

#[derive(Clone, Copy, PartialEq, Eq, Hash, Debug)]
pub enum Target {
  Spec(usize),
  Node,
  Npm,
  Data,
  /// `http://x/...` imported from an https module (downgrade) - only
  /// meaningful for remote worlds
  Http,
  /// literal `file:///...` specifier
  FileLiteral,
  /// a specifier that cannot be resolved (bare, no resolver mapping)
  Bare,
  /// a `jsr:` specifier of a package the loader does not know
  Jsr,
  /// the same npm package requirement as `Npm`, with a sub path
  NpmSub,
  /// another specifier of the package of `Jsr` (same requirement, a sub path)
  JsrSub,
}

#[derive(Clone, Copy, PartialEq, Eq, Hash, Debug)]
pub enum Attr {
  None,
  Json,
  Text,
  Bytes,
}

#[derive(Clone, Debug)]
pub struct Edge {
  pub src: usize,
  pub form: Form,
  pub dst: Target,
  /// second target for forms that need one (types pragma)
  pub aux: usize,
}

#[derive(Clone, Debug)]
pub struct World {
  pub remote: bool,
  pub kinds: Vec<Kind>,
  pub attrs: Vec<Attr>,
  pub redirect_to: Vec<usize>,
  pub edges: Vec<Edge>,
  /// x-typescript-types header on module i pointing at j
  pub types_header: Option<(usize, usize)>,
  pub n_roots: usize,
}

#[derive(Clone, Debug)]
pub struct Written {
  pub src: usize,
  pub edge: usize,
  pub form: Form,
  pub text: String,
  pub dynamic: bool,
}

pub struct GenOpts {
  pub n_specs: usize,
  pub max_edges: usize,
  /// extra targets beyond the world's own specifiers
  pub special_targets: bool,
  pub allow_remote: bool,
  pub kinds: &'static [Kind],
  /// cost-1 choices (deviation bounded) vs shape (full)
  pub deviation_cost: bool,
  /// the first `max_roots` specifiers may be roots (a root is an import
  /// without attribute, so it never carries an `imported_with` attribute)
  pub max_roots: usize,
  /// when set, exactly this many leading specifiers are root candidates
  pub force_roots: Option<usize>,
  /// restrict the import-form alphabet (None = every form the module kind allows)
  pub forms: Option<&'static [Form]>,
}

/// The core alphabet used for *complete* enumeration of small graph shapes.
pub const CORE_FORMS: &[Form] = &[Form::Import, Form::Dynamic, Form::ImportType];
pub const CORE_KINDS: &[Kind] = &[Kind::Ts, Kind::Missing, Kind::Js, Kind::Json, Kind::Redirect];
pub const CORE_KINDS_QUICK: &[Kind] = &[Kind::Ts, Kind::Missing];

/// Where the loader's redirects lead from `i`. All members of a redirect
/// cycle (and everything leading into it) share one representative - the
/// cycle's smallest index - so that the same-attribute proviso treats them as
/// one target.
pub fn final_of(kinds: &[Kind], redirect_to: &[usize], mut i: usize) -> usize {
  let mut seen: Vec<usize> = vec![];
  loop {
    if kinds[i] != Kind::Redirect {
      return i;
    }
    if let Some(pos) = seen.iter().position(|x| *x == i) {
      return *seen[pos..].iter().min().unwrap();
    }
    seen.push(i);
    i = redirect_to[i];
  }
}

impl World {
  pub fn base(&self) -> &'static str {
    if self.remote { "https://x/" } else { "file:///w/" }
  }
  pub fn spec(&self, i: usize) -> String {
    format!("{}{}", self.base(), self.kinds[i].file_name(i))
  }
  pub fn url(&self, i: usize) -> deno_graph::ModuleSpecifier {
    url(&self.spec(i))
  }
  pub fn target_text(&self, t: Target) -> String {
    match t {
      Target::Spec(i) => format!("./{}", self.kinds[i].file_name(i)),
      Target::Node => "node:fs".into(),
      Target::Npm => "npm:pkg@1".into(),
      Target::NpmSub => "npm:pkg@1/sub.js".into(),
      Target::Data => "data:application/typescript,export%20const%20d%3D1%3B".into(),
      Target::Http => "http://x/plain.ts".into(),
      Target::FileLiteral => "file:///w/local.ts".into(),
      Target::Bare => "bare-pkg".into(),
      Target::Jsr => "jsr:@s/pkg@1".into(),
      Target::JsrSub => "jsr:@s/pkg@1/sub".into(),
    }
  }

  /// see `Space::chains`
  pub fn chain(ch: &Ch, max_roots: usize, force_roots: Option<usize>) -> World {
    let len = 1 + ch.shape("chain_len", 3);
    // 0: root, 1: second importer, 2..2+len: hops, 2+len: terminal, 3+len: leaf
    let n = 7;
    let mut kinds = vec![Kind::Ts; n];
    let mut redirect_to = vec![0; n];
    for i in 0..len {
      kinds[2 + i] = Kind::Redirect;
      redirect_to[2 + i] = 3 + i;
    }
    let terminal = *ch.pick("terminal_kind", &[Kind::Ts, Kind::Js, Kind::Missing, Kind::Error]);
    kinds[2 + len] = terminal;
    // ... or the head is the types dependency of a JavaScript root (`@ts-self-types`)
    let form = *ch.pick("form_of_the_import_of_the_head", &[Form::Import, Form::Dynamic, Form::ImportType, Form::SelfTypes]);
    if form == Form::SelfTypes {
      kinds[0] = Kind::Js;
    }
    let mut edges = vec![Edge { src: 0, form, dst: Target::Spec(2), aux: 0 }];
    // the second importer: not at all, or into the chain at hop k (k = len: the terminal itself)
    let enter = ch.shape("second_importer_enters_at", len + 2);
    if enter > 0 {
      edges.push(Edge { src: 1, form: Form::Import, dst: Target::Spec(2 + enter - 1), aux: 0 });
    }
    if terminal == Kind::Ts && ch.flag("terminal_imports_leaf") {
      edges.push(Edge { src: 2 + len, form: Form::Import, dst: Target::Spec(3 + len), aux: 0 });
    }
    let n_roots = match force_roots {
      Some(n) => n,
      None => 1 + ch.shape("extra_roots", max_roots.clamp(1, 2)),
    };
    World {
      remote: true,
      kinds,
      attrs: vec![Attr::None; n],
      redirect_to,
      edges,
      types_header: None,
      n_roots,
    }
  }

  pub fn generate(ch: &Ch, o: &GenOpts) -> World {
    let pick = |label: &'static str, n: usize| -> usize {
      if o.deviation_cost { ch.choose(label, n) } else { ch.shape(label, n) }
    };
    let remote = o.allow_remote && pick("remote", 2) == 1;
    let n_roots = match o.force_roots {
      Some(n) => n,
      None => 1 + pick("extra_roots", o.max_roots.max(1)),
    };
    let mut kinds = vec![];
    for i in 0..o.n_specs {
      if i == 0 {
        // the first specifier always has source (it is the main root)
        let ks: Vec<Kind> = o.kinds.iter().copied().filter(|k| k.has_source()).collect();
        kinds.push(ks[pick("kind0", ks.len())]);
      } else {
        kinds.push(o.kinds[pick("kind", o.kinds.len())]);
      }
    }
    let mut redirect_to = vec![0; o.n_specs];
    for i in 0..o.n_specs {
      if kinds[i] == Kind::Redirect {
        // redirect to any *other* specifier (cycles among redirects possible)
        let others: Vec<usize> = (0..o.n_specs).filter(|j| *j != i).collect();
        redirect_to[i] = others[pick("redirect_to", others.len())];
      }
    }
    let mut attrs = vec![Attr::None; o.n_specs];
    for (i, k) in kinds.iter().enumerate() {
      if i >= n_roots && matches!(k, Kind::Json | Kind::Txt | Kind::Ts | Kind::Missing | Kind::Redirect) {
        attrs[i] = [Attr::None, Attr::Json, Attr::Text, Attr::Bytes][pick("attr", 4)];
      }
    }
    // same-attribute proviso on *final* targets: all specifiers that lead
    // (through loader redirects) to one entry share one attribute, and none
    // if that entry is a root
    {
      let fin = |i: usize| final_of(&kinds, &redirect_to, i);
      for j in 0..o.n_specs {
        let f = fin(j);
        let leader = (0..o.n_specs).find(|k| fin(*k) == f).unwrap();
        attrs[j] = if f < n_roots || leader < n_roots { Attr::None } else { attrs[leader] };
      }
    }
    let sources: Vec<usize> = (0..o.n_specs).filter(|i| kinds[*i].has_source()).collect();
    let mut edges = vec![];
    let mut min_src_pos = 0;
    for _ in 0..o.max_edges {
      // option 0 = no further edge
      let n_src = sources.len() - min_src_pos;
      let s = pick("edge_src", n_src + 1);
      if s == 0 {
        break;
      }
      let src_pos = min_src_pos + s - 1;
      min_src_pos = src_pos;
      let src = sources[src_pos];
      let mut forms = forms_for(kinds[src]);
      if let Some(allowed) = o.forms {
        forms.retain(|f| allowed.contains(f));
      }
      let form = forms[pick("form", forms.len())];
      let mut targets: Vec<Target> = (0..o.n_specs).map(Target::Spec).collect();
      if o.special_targets {
        targets.extend([Target::Node, Target::Npm, Target::Data, Target::Bare, Target::Jsr, Target::NpmSub, Target::JsrSub]);
        if remote {
          targets.extend([Target::Http, Target::FileLiteral]);
        }
      }
      // default target: the next specifier
      targets.rotate_left((src + 1) % o.n_specs);
      let dst = targets[pick("target", targets.len())];
      let aux = if form == Form::TsTypesPragma {
        pick("types_target", o.n_specs)
      } else {
        0
      };
      // same-attribute proviso: the types target of a pragma is imported
      // "with" the attribute of the import the pragma sits on
      let form = if form == Form::TsTypesPragma
        && attrs[aux]
          != match dst {
            Target::Spec(d) => attrs[d],
            _ => Attr::None,
          } {
        Form::Import
      } else {
        form
      };
      // same-attribute proviso: a target imported `with { type }` can only be
      // imported through forms that can carry the attribute
      let form = match dst {
        Target::Spec(d)
          if attrs[d] != Attr::None
            && !matches!(
              form,
              Form::Import
                | Form::SideEffect
                | Form::ExportStar
                | Form::ExportNamed
                | Form::Dynamic
                | Form::StaticAndDynamic
                | Form::DynamicAndStatic
                | Form::TsTypesPragma
                | Form::ImportType
                | Form::ExportType
            ) =>
        {
          Form::Import
        }
        _ => form,
      };
      // at most one self-types pragma / jsx import source pragma per module
      // (the analyser takes the first; which one wins is not part of any statement)
      let form = if matches!(form, Form::SelfTypes | Form::JsxPragma)
        && edges.iter().any(|e: &Edge| e.src == src && e.form == form)
      {
        Form::Import
      } else {
        form
      };
      edges.push(Edge { src, form, dst, aux });
    }
    let types_header = if remote && pick("types_header", 2) == 1 {
      let i = sources[pick("types_header_on", sources.len())];
      let j = pick("types_header_to", o.n_specs);
      Some((i, j))
    } else {
      None
    };
    // the header's target is an attribute-less import (proviso)
    let types_header = types_header.filter(|(_, j)| {
      let f = final_of(&kinds, &redirect_to, *j);
      attrs[*j] == Attr::None && attrs[f] == Attr::None
    });
    World {
      remote,
      kinds,
      attrs,
      redirect_to,
      edges,
      types_header,
      n_roots,
    }
  }

  fn attr_clause(&self, t: Target) -> &'static str {
    match t {
      Target::Spec(i) => match self.attrs[i] {
        Attr::None => "",
        Attr::Json => " with { type: \"json\" }",
        Attr::Text => " with { type: \"text\" }",
        Attr::Bytes => " with { type: \"bytes\" }",
      },
      _ => "",
    }
  }

  fn dyn_attr(&self, t: Target) -> &'static str {
    match t {
      Target::Spec(i) => match self.attrs[i] {
        Attr::None => "",
        Attr::Json => ", { with: { type: \"json\" } }",
        Attr::Text => ", { with: { type: \"text\" } }",
        Attr::Bytes => ", { with: { type: \"bytes\" } }",
      },
      _ => "",
    }
  }

  /// Renders the source of module `i`; returns text and what was written.
  pub fn render(&self, i: usize) -> (String, Vec<Written>) {
    let mut head = String::new();
    let mut body = String::new();
    let mut written = vec![];
    let mut local = 0usize;
    for (gi, e) in self.edges.iter().enumerate() {
      if e.src != i {
        continue;
      }
      // names depend on the position inside this module only, so that a
      // module's text is a function of its own import list
      let ei = local;
      local += 1;
      let t = self.target_text(e.dst);
      let a = self.attr_clause(e.dst);
      let da = self.dyn_attr(e.dst);
      let mut w = |text: &str, dynamic: bool| {
        written.push(Written {
          src: i,
          edge: gi,
          form: e.form,
          text: text.to_string(),
          dynamic,
        })
      };
      match e.form {
        Form::Import => {
          body.push_str(&format!("import * as a{ei} from \"{t}\"{a};\n"));
          w(&t, false);
        }
        Form::SideEffect => {
          body.push_str(&format!("import \"{t}\"{a};\n"));
          w(&t, false);
        }
        Form::ExportStar => {
          body.push_str(&format!("export * as s{ei} from \"{t}\"{a};\n"));
          w(&t, false);
        }
        Form::ExportNamed => {
          body.push_str(&format!("export {{ default as n{ei} }} from \"{t}\"{a};\n"));
          w(&t, false);
        }
        Form::ImportType => {
          body.push_str(&format!("import type {{ T{ei} }} from \"{t}\"{a};\n"));
          w(&t, false);
        }
        Form::ExportType => {
          body.push_str(&format!("export type {{ U{ei} }} from \"{t}\"{a};\n"));
          w(&t, false);
        }
        Form::Dynamic => {
          body.push_str(&format!("const d{ei} = await import(\"{t}\"{da});\n"));
          w(&t, true);
        }
        Form::StaticAndDynamic => {
          body.push_str(&format!("import * as a{ei} from \"{t}\"{a};\n"));
          body.push_str(&format!("const d{ei} = await import(\"{t}\"{da});\n"));
          w(&t, false);
          w(&t, true);
        }
        Form::DynamicAndStatic => {
          body.push_str(&format!("const d{ei} = await import(\"{t}\"{da});\n"));
          body.push_str(&format!("import * as a{ei} from \"{t}\"{a};\n"));
          w(&t, true);
          w(&t, false);
        }
        Form::RefPath => {
          head.push_str(&format!("/// <reference path=\"{t}\" />\n"));
          w(&t, false);
        }
        Form::RefTypes => {
          head.push_str(&format!("/// <reference types=\"{t}\" />\n"));
          w(&t, false);
        }
        Form::TsTypesPragma => {
          let tt = self.target_text(Target::Spec(e.aux));
          body.push_str(&format!("// @ts-types=\"{tt}\"\nimport * as a{ei} from \"{t}\"{a};\n"));
          w(&t, false);
        }
        Form::SelfTypes => {
          head.push_str(&format!("// @ts-self-types=\"{t}\"\n"));
          w(&t, false);
        }
        Form::JsDoc => {
          body.push_str(&format!("/** @type {{import(\"{t}\").J{ei}}} */\nconst j{ei} = null;\n"));
          w(&t, false);
        }
        Form::ImportSource => {
          body.push_str(&format!("import source w{ei} from \"{t}\";\n"));
          w(&t, false);
        }
        Form::ImportEquals => {
          body.push_str(&format!("import q{ei} = require(\"{t}\");\n"));
          w(&t, false);
        }
        Form::DeclareModule => {
          body.push_str(&format!("declare module \"{t}\" {{ export const aug{ei}: number; }}\n"));
          w(&t, false);
        }
        Form::ImportTypeExpr => {
          body.push_str(&format!("export type I{ei} = import(\"{t}\").X{ei};\n"));
          w(&t, false);
        }
        Form::JsxPragma => {
          head.push_str(&format!("/** @jsxImportSource {t} */\n"));
          w(&format!("{t}/jsx-runtime"), false);
        }
        Form::Require => {
          body.push_str(&format!("const r{ei} = require(\"{t}\");\n"));
          w(&t, true);
        }
        Form::ImportTypeInNamespace => {
          body.push_str(&format!("namespace NS{ei} {{ export type I = import(\"{t}\").X{ei}; }}\n"));
          w(&t, false);
        }
        Form::DynamicInNamespace => {
          body.push_str(&format!("namespace ND{ei} {{ export const d = import(\"{t}\"); }}\n"));
          w(&t, true);
        }
      }
    }
    let mut text = head;
    text.push_str(&body);
    text.push_str(&format!("export default {i};\n"));
    (text, written)
  }

  pub fn install(&self, loader: &ScriptedLoader) {
    let wasm = std::fs::read("/repo/tests/testdata/math.wasm").unwrap_or_default();
    for i in 0..self.kinds.len() {
      let spec = self.spec(i);
      match self.kinds[i] {
        k if k.has_source() => {
          let (text, _) = self.render(i);
          let mut headers: Vec<(String, String)> = vec![];
          if k == Kind::HeaderTs {
            headers.push(("content-type".into(), "application/typescript".into()));
          }
          if let Some((on, to)) = self.types_header
            && on == i
          {
            headers.push(("x-typescript-types".into(), self.spec(to)));
          }
          loader.add(
            &spec,
            Entry::Module {
              content: text.as_bytes().into(),
              headers: if headers.is_empty() { None } else { Some(headers) },
              final_specifier: None,
            },
          );
        }
        Kind::Json => loader.add_text(&spec, "{\"a\": 1}"),
        Kind::Txt => loader.add_text(&spec, "plain text"),
        Kind::Missing => {}
        Kind::Redirect => loader.add(&spec, Entry::Redirect(self.url(self.redirect_to[i]))),
        Kind::External => loader.add(&spec, Entry::External),
        Kind::Error => loader.add(&spec, Entry::Error("loader failure".into())),
        Kind::Wasm => loader.add(&spec, Entry::bytes(&wasm)),
        Kind::BadSyntax => loader.add_text(&spec, "export const = ;"),
        _ => unreachable!(),
      }
    }
    loader.add_text("http://x/plain.ts", "export const p = 1;");
    loader.add_text("file:///w/local.ts", "export const l = 1;");
  }

  /// A source-phase import (`import source`) of a non-wasm specifier that
  /// is also a root or imported another way: the builder overwrites the
  /// loaded slot with the source-phase error (recorded under C01).
  pub fn has_source_phase_clobber(&self) -> bool {
    self.edges.iter().enumerate().any(|(i, e)| {
      e.form == Form::ImportSource
        && match e.dst {
          // the error entry is written at the *requested* specifier (or at
          // what an already recorded redirect of it points to)
          Target::Spec(d) => {
            self.kinds[d] != Kind::Wasm
              && (d < self.n_roots
                || self.edges.iter().enumerate().any(|(j, o)| {
                  j != i
                    && (matches!(o.dst, Target::Spec(x) if x == d)
                      || (o.form == Form::TsTypesPragma && o.aux == d))
                })
                || self.types_header.is_some_and(|(_, t)| t == d)
                || (0..self.kinds.len()).any(|k| k != d && self.kinds[k] == Kind::Redirect && self.redirect_to[k] == d))
          }
          _ => false,
        }
    })
  }

  /// follows loader redirects (bounded)
  pub fn final_target(&self, i: usize) -> usize {
    final_of(&self.kinds, &self.redirect_to, i)
  }

  pub fn roots(&self) -> Vec<deno_graph::ModuleSpecifier> {
    (0..self.n_roots).map(|i| self.url(i)).collect()
  }

  pub fn describe(&self) -> Value {
    json!({
      "base": self.base(),
      "roots": (0..self.n_roots).map(|i| self.spec(i)).collect::<Vec<_>>(),
      "entries": (0..self.kinds.len()).map(|i| {
        let k = self.kinds[i];
        let mut v = json!({"specifier": self.spec(i), "kind": format!("{k:?}")});
        if k.has_source() { v["source"] = json!(self.render(i).0); }
        if k == Kind::Redirect { v["redirects_to"] = json!(self.spec(self.redirect_to[i])); }
        if self.attrs[i] != Attr::None { v["imported_with"] = json!(format!("{:?}", self.attrs[i])); }
        v
      }).collect::<Vec<_>>(),
      "types_header": self.types_header.map(|(a, b)| format!("{} -> {}", self.spec(a), self.spec(b))),
    })
  }

  pub fn key(&self) -> u64 {
    crate::engine::hash_of(&format!("{:?}", self))
  }
}


/// A bounded space of worlds: the generic one is explored deviation-bounded
/// from the all-TypeScript/no-edge base world; the core one is enumerated
/// completely (every graph shape over a small alphabet).
#[derive(Clone, Copy)]
pub struct Space {
  pub n_specs: usize,
  pub max_edges: usize,
  pub kinds: &'static [Kind],
  pub forms: Option<&'static [Form]>,
  pub cost: bool,
  pub special: bool,
  pub remote: bool,
  /// worlds around a redirect chain instead of generated ones (`Space::chains`)
  pub chain: bool,
}

impl Space {
  pub fn generic(n_specs: usize, max_edges: usize) -> Space {
    Space { n_specs, max_edges, kinds: KINDS, forms: None, cost: true, special: true, remote: true, chain: false }
  }
  pub fn core(n_specs: usize, max_edges: usize, kinds: &'static [Kind]) -> Space {
    Space { n_specs, max_edges, kinds, forms: Some(CORE_FORMS), cost: false, special: false, remote: false, chain: false }
  }
  /// Worlds around a redirect chain of 1-3 hops, enumerated completely (all
  /// choices are free): m0 (root) imports the head in one of three forms, m1
  /// (optionally a second root) enters the chain at any hop or not at all, the
  /// chain ends in a TypeScript / JavaScript / missing / failing entry, and a
  /// TypeScript terminal may import a leaf. The middle hops of a chain are
  /// specifiers that nothing imports directly.
  pub fn chains() -> Space {
    Space { n_specs: 7, max_edges: 3, kinds: KINDS, forms: None, cost: false, special: false, remote: true, chain: true }
  }
  pub fn generate(&self, ch: &Ch, max_roots: usize, force_roots: Option<usize>) -> World {
    if self.chain {
      return World::chain(ch, max_roots, force_roots);
    }
    World::generate(
      ch,
      &GenOpts {
        n_specs: self.n_specs,
        max_edges: self.max_edges,
        special_targets: self.special,
        allow_remote: self.remote,
        kinds: self.kinds,
        deviation_cost: self.cost,
        max_roots,
        force_roots,
        forms: self.forms,
      },
    )
  }
}
