#!/usr/bin/env bash
# confirm_seeded.sh <worktree> <out-dir>
# Confirms a seeded change delivered in <worktree>/MUTATION: the pinned suite
# passes with it, the demo fails with it and passes without it. Writes
# <out-dir>/{patch.diff,seeded_demo.rs,meta.json,confirm.log}.
set -u
WT="$1"; OUT="$2"
mkdir -p "$OUT"
cd "$WT" || exit 2
export CARGO_NET_OFFLINE=true
LOG="$OUT/confirm.log"; : > "$LOG"
git checkout -q -- src 2>>"$LOG"
rm -f tests/seeded_demo.rs
# 0. the patch applies to a clean tree
git apply --check MUTATION/patch.diff >>"$LOG" 2>&1 || { echo "PATCH DOES NOT APPLY" | tee -a "$LOG"; exit 1; }
# 1. demo passes without the change
cp MUTATION/seeded_demo.rs tests/seeded_demo.rs
if cargo test --offline -j 8 --test seeded_demo >>"$LOG" 2>&1; then echo "demo_without_change=pass" | tee -a "$LOG"; else echo "demo_without_change=FAIL" | tee -a "$LOG"; fi
# 2. with the change: demo fails
git apply MUTATION/patch.diff
if cargo test --offline -j 8 --test seeded_demo >>"$LOG" 2>&1; then echo "demo_with_change=PASS(unexpected)" | tee -a "$LOG"; else echo "demo_with_change=fail" | tee -a "$LOG"; fi
# 3. with the change: pinned suite (demo moved aside)
rm -f tests/seeded_demo.rs
cargo test --workspace --no-fail-fast --offline -j 8 2>&1 | grep -E "^test result|FAILED|failed" | tee -a "$LOG"
cargo build --offline -j 8 --features verif_hooks >>"$LOG" 2>&1 && echo "hooks_build=ok" | tee -a "$LOG"
cp MUTATION/patch.diff MUTATION/seeded_demo.rs "$OUT"/
cp MUTATION/meta.json "$OUT"/agent_meta.json
