#!/usr/bin/env python3
"""Writes /verif/MANIFEST.json from the table below (single source of truth)."""
import json, subprocess, os

ROOT = os.path.dirname(os.path.dirname(os.path.abspath(__file__)))

TECH = "stateless bounded-exhaustive exploration of the real code (choice-prefix DFS, harness-owned environment)"

# id -> (implemented, level text, level note, design ref, technique)
P = {
 "C14": (True,
  "All redirect shapes inside the bound (chains 0..13 x terminal kind x types dependency, cycles 1..4 x tails 0..3, two loader redirect limits, second entry points, a types dependency reached directly or behind 1-2 redirects, lockfile-seeded chains 1..15 and cycles with/without a build) are built with the real builder and every lookup is compared with the walk on every specifier of interest; that space is enumerated completely (Full). A further part explores fault histories deviation-bounded: chains of 1-3 hops entered again from a dynamic branch and from a second build while every load of a chain member may answer honestly, with not-found, an error or a redirect to any chain member.",
  "Trusted: the harness loader/driver, ModuleGraph::walk as the reference (the property names it as such). Shapes beyond the bound are not covered.",
  "DESIGN.md §4 C14", TECH + "; Full enumeration of redirect shapes"),

 "C06": (True,
  "The version-selection routine the builder calls is evaluated on every registry over the version domain (each version absent/live/yanked x created_at none/before/at/after the cutoff), every requirement, every set of already-selected and cached versions and every date/exclusion configuration, and compared with a declarative four-tier reference; complete enumeration of that bounded domain. A further complete part enumerates version sets with pre-release and build-metadata versions of one release under every iteration order of the registry's version map: the selection must follow the reference and must not depend on the order.",
  "Second part (deviation-bounded): real builds against a scripted registry - up to 3 requirements on one package resolved in visit order, lockfile-seeded selections, cutoff date / exclusions, prefer_cached_jsr_versions with cached manifest subsets, version tags, a neighbour package with the same requirement text, stale cached registry metadata (restart from an empty graph; single-package refresh on a graph that already has roots) - compared per import with the function-level reference applied in visit order. Trusted: deno_semver's VersionReq::matches and Version ordering (used by both sides).",
  "DESIGN.md §4 C06", TECH + "; Full enumeration of the bounded selection domain against a reference model"),
 "C20": (True,
  "Every byte string over a 19-atom alphabet up to the tier's length is loaded as a root module under every charset header x scheme x media type through the real builder, and (second part) served as registry files whose content load is deferred (embedded module graph); in both parts further modules in other encodings are loaded by the same build (before and after) and checked too; stored text, try_get_original_bytes and the serialised size are compared with an independent reference decoder (WHATWG UTF-16 state machine, from_utf8_lossy, cp1252 table). Complete enumeration.",
  "Trusted: the reference decoder, std's from_utf8_lossy. TS modules whose decoded text does not parse are unobservable (JSON modules cover every string).",
  "DESIGN.md §4 C20", TECH + "; Full enumeration of byte strings x charset x scheme x media type against an independent decoder"),

 "C17": (True,
  "Every world inside the deviation bound (entry kinds x attributes x import forms x targets x local/remote, 3 option sets), every core-alphabet world, and every generated package graph carrying fast-check data is built twice with the real builder (All [+ fast check] then prune_types(), and CodeOnly) and the code-level views are compared; residues of type information and fast-check data in the pruned graph are checked; worlds with generated WebAssembly modules and all redirect-chain worlds (1-3 hops) are included. All worlds within the completed deviation bound are enumerated (the evidence states the bound).",
  "Differential oracle, no reference model. Errors compared by kind and specifier, not by referrer. Worlds violating the same-attribute proviso (also through redirects, roots, types header, pragma) are not generated; source-phase imports of otherwise-loaded specifiers are excluded here and reported under C01.",
  "DESIGN.md §4 C17", TECH + "; deviation-bounded enumeration of module worlds, differential oracle"),
 "C18": (True,
  "For every world inside the deviation bound, every graph kind and every set of <= 2 module-holding specifiers as segment roots: each dependency of each module in the segment resolves and looks up as in the original, validation verdicts agree, for non-original roots the listing equals a direct build of those roots, and a segment of the segment equals the segment of the original (where the statement promises it); graphs with fast-check modules, with generated WebAssembly modules and all redirect-chain worlds (1-3 hops) are segmented too.",
  "Differential oracle. Segment roots are specifiers that no import loads as an asset (same-attribute proviso; a root is an attribute-less import).",
  "DESIGN.md §4 C18", TECH + "; deviation-bounded enumeration of module worlds x graph kinds x segment roots, differential oracle"),
 "C02": (True,
  "Structured placements (9 failure kinds x 6 edge kinds x 0..3, 9 and 10 redirect hops x sibling x local/remote x an optional second import of the same specifier text as a bytes / text asset in the same module) are built with the real builder and validated under all 36 walk option sets and valid(); the verdict is compared both with the verdict known by construction and with an independent reachability computation over the graph's recorded dependencies (complete enumeration). Generic worlds inside the deviation bound and all redirect-chain worlds (1-3 hops) are compared with the reachability reference; graphs that carry fast-check modules and graphs with generated WebAssembly modules (verdict known by construction) are validated under all 36 option sets.",
  "The reachability reference reads Module::dependencies / redirects / imports through the public API. A root of unknown media type is (leniently) JavaScript and not counted as a failure; the resolution of a configured import itself is outside the statement.",
  "DESIGN.md §4 C02", TECH + "; Full enumeration of failure placements + deviation-bounded worlds, oracle = construction ground truth and reachability reference"),
 "C15": (True,
  "Every graph built from a world inside the deviation bound is walked from every root set of <= 2 world specifiers under all 36 option sets, plain and with skip_previous_dependencies() after each single entry / every entry; yielded sets (no duplicates) and keyed error listings are compared with a set-based reference fixpoint. A complete part walks all redirect-chain worlds (1-3 hops, middle hops imported by nothing) from every root set; a further part walks graphs that carry fast-check modules (generated packages after build_fast_check_type_graph, with failing imports that only function bodies use) under all 36 option sets incl. prefer_fast_check_graph, and graphs with generated WebAssembly modules likewise.",
  "Reference fixpoint written over the public data (serialised slot table, redirects, imports, Module::dependencies(), the fast_check field of JS modules - not through dependencies_prefer_fast_check()). Generic worlds have no fast-check modules; the fast-check part supplies them.",
  "DESIGN.md §4 C15", TECH + "; deviation-bounded worlds x all walk options x root sets x skip sets against a reference fixpoint"),
 "C19": (True,
  "Every history of up to 3 (quick) / 4 (thorough) operations over {build(r0), build(r1), build(r0,r1), build(r0) with a configured type import, edit+reload(m) by the module's own specifier or by a recorded redirecting specifier} is replayed on a live graph for every world (generic worlds and worlds around redirect chains of 1-3 hops; one alternative import list / repaired variant per module; graph kind as a choice) inside the deviation bound, with two further deviation-bounded parts: twin worlds whose edits keep a module's byte length, optionally sharing one CapturingModuleAnalyzer across builds and reloads (same-length-edits), and redirect-chain worlds (chains); after each operation the live graph is compared with a from-scratch build of the roots so far on the current sources, rebuilds of known roots must be no-ops, and unreachable leftovers must be untouched.",
  "Differential oracle. Error entries compared without referrer. Specifiers that some import loads as an asset are not reloaded (a reload is an attribute-less load).",
  "DESIGN.md §4 C19", TECH + "; exhaustive operation histories up to a depth x deviation-bounded worlds, differential oracle against from-scratch builds"),
 "C03": (True,
  "For four fixtures (plain, registry, registry with embedded module graphs + cache misses, npm+node) every assignment of an answer kind to the loader calls the build issues is explored up to the completed number of deviations (one fault anywhere: all; pairs/triples: per tier) with 16 answer kinds for load (+6 for registry metadata), 5 for ensure_cached and 4 npm resolver answers (ok, failing one or the other of two requirements imported out of sorted order, dependency-graph error; a failed requirement must be the error entry of its own specifiers); absolute expectations on the fault-free builds: a package file importing JSON statically without attribute is an error entry, and every jsr: specifier with a redirect has its requirement in the package table; every fixture re-requests settled specifiers (dynamic branch, optional second build on the same graph), the registry fixtures take prefer_cached_jsr_versions as a choice and contain unsatisfiable / yanked-only requirements; one part combines faults with EVERY completion order of the gated loader futures. Every run is checked for: no panic, the build future completes, no unfinished entry / [INTERNAL ERROR], terminal faults become error entries with a referrer, non-interference against the fault-free build.",
  "Faults beyond the completed deviation bound and worlds beyond the four fixtures are not covered. Registry files ignore response headers by design; files with embedded module information are not parsed.",
  "DESIGN.md §4 C03", TECH + "; deviation-bounded fault assignment over every loader call (fault enumeration), differential non-interference oracle"),
 "C04": (True,
  "For 18 collision worlds (two with prefer_cached_jsr_versions and partly cached manifests, one with a cache-busting restart, one with pre-release and build-metadata versions of one release, one where a deferred registry content load meets an entry that a second import has turned into an error) and for every core-alphabet world x graph kind, every completion order of the gated Loader futures (and, with the queued executor, every order of polling spawned metadata tasks) and every permutation of the builder's hash-map drains, of the issue order of the cache-only probes and of the iteration order of the registry's version map is enumerated (Full; deviation-bounded for the largest), plus 0-2 extra suspensions of released futures (deviation-bounded); each run's graph observation incl. error referrers, final lockfile content and multiset of lockfile writes must equal the all-ready run. Part repeated-runs builds every collision world 32 times in one process under one schedule with the hooked sites pinned (fresh hasher keys for every map the builder creates) and requires identical results: this part samples hasher states, it is the only one that is not an enumeration.",
  "Owns: loader completion order, executor task order, hash-map drain / issue / iteration order (4 hook sites), extra suspensions. Hash order at a site the hook does not cover can only be sampled (part repeated-runs); a divergence between two replays of one choice prefix in a later part is reported as a note next to the violation that part finds. Scenario worlds are hand-built to collide, the generated ones are complete over the core alphabet; more than ~8 simultaneously outstanding operations are not explored.",
  "DESIGN.md §4 C04", TECH + "; exhaustive enumeration of completion orders and drain permutations under a controlled scheduler"),
 "C05": (True,
  "One composite world reaches a remote module statically / dynamically / as text asset / behind a redirect / as declaration / with BOM / with invalid UTF-8, a jsr: package with a sub-path (a pre-release version), and an https URL into the registry as module and as asset. Every assignment of lockfile state x served bytes to the 12 resources (+ manifests, redirecting URL, a redirect seeded from the lockfile, embedded module graph, cache probe, stale registry metadata that forces the cache-busting restart, two versions of one package, an optional reload of one resource afterwards) inside the deviation bound is built with the real builder under a checksum-verifying loader; a monitor over the Loader and Locker call logs decides presentation, admission, retries, redirect rejection and recording.",
  "The scripted loader verifies presented checksums like a real cache. prefer_cached_jsr_versions is off. One world; assignments bounded by deviations from all-honest/empty-lockfile.",
  "DESIGN.md §4 C05", TECH + "; deviation-bounded enumeration of lockfile x tamper assignments with a call-log monitor"),
 "C01": (True,
  "Every world inside the bound (deviation-bounded generic worlds over all entry kinds, 22 import forms, special targets, attributes, redirects, local/remote, types header; plus the complete enumeration of core-alphabet worlds with <= 3 edges) is built under 3 graph kinds x 10 option sets (all combinations of skip_dynamic_deps x is_dynamic x unstable text/bytes; custom resolver with resolve_types and default JSX import source + npm resolver + jsr passthrough + configured import; redirects seeded from the lockfile) and compared with (1) reference rules deriving each module's recorded dependencies from the renderer's record of what it wrote, (2) the least closure of the roots under the follow rules, computed over the reference dependencies, (3) the loader call log (single content load per specifier, redirects recorded), (4) entry kinds fixed by the world. Five further complete parts: worlds around redirect chains of 1-3 hops whose middle hops nothing imports (head imported statically / dynamically / type-only / as the types dependency of a JavaScript root); import attribute types (none / json / text / bytes / css / yaml / jsonc / unknown) x 5 import forms x 9 target kinds x a resolver whose attribute hook claims the config types, each under all 16 combinations of unstable_text / bytes / css / config imports, against a reference table plus the rule that options unrelated to the attribute type change nothing; two import statements (evaluating / source-phase, static / dynamic) for one WebAssembly module, named directly or through a redirect, against the join of the single-statement builds; template-literal dynamic imports expanded against an in-memory directory tree (18 templates x 2 importing modules x 3 graph kinds) and generated WebAssembly binaries with <= 3 imports of every import kind.",
  "The reference rules (about 25, each mirroring a sentence of the statement and anchored in graph.rs) are part of the trusted base. Worlds outside the same-attribute proviso are not generated; redirect cycles are C14's.",
  "DESIGN.md §4 C01", TECH + "; deviation-bounded + complete core enumeration of module worlds against a reference model of declared dependencies and closure"),
 "C08": (True,
  "All programs of <= 2 (quick) / <= 3 (thorough) items over a 28-form dependency syntax alphabet x 6 media types are generated (form choice complete; spelling, quotes, trivia, CRLF, BOM, shebang deviation-bounded), analysed with the real analyser and built into a graph; reported (kind, unescaped specifier, attribute) multisets, byte-exact ranges (independent position mapper) and Dependency::includes over every text position are compared with the renderer's record. Every module source of the spec corpus is checked with the generic range oracle.",
  "Trusted: the renderer's bookkeeping, the independent (line, scalar-value) -> byte mapper. Forms outside the alphabet are only covered through the corpus.",
  "DESIGN.md §4 C08", TECH + "; complete enumeration of short programs over a syntax alphabet (deviation-bounded trivia/spelling) + full corpus"),
 "C13": (True,
  "Four exhaustive-within-bound parts: round trip (value and string) of every ModuleInfo the analyser produces over the C08 program space; round trip of ModuleInfo values enumerated directly over per-field alphabets (deviation-bounded from the default value); all moduleGraph1 shapes of 1-3 imports (per import: 7 pragma forms, unrelated comments, omitted key) upgraded and compared with analysing the equivalent source; registry packages (5 source files, generated import lists, 3 root import forms, 2 entrypoints) published with and without an embedded module graph and built with cache-probe hit / miss, graphs compared.",
  "Premise of the statement: the embedded information is produced by this analyser from those sources (the fixture does exactly that).",
  "DESIGN.md §4 C13", TECH + "; enumeration of values / programs / packages, round-trip and differential oracles"),
 "C07": (True,
  "Registries of 2 packages x 2 versions (5 exports shapes, per-file import lists over relative / jsr: / npm: / https-into-registry / self / unknown-export forms, and equal requirements under other spellings: `@^1` next to `@1`, `jsr:/@s/a`) and importing programs of <= 3 imports - optionally built in two steps on one graph, with lockfile-seeded selections, or with passthrough_jsr_specifiers - are built with the real builder inside the deviation bound; redirects, mappings, exports used, package dependency edges and unknown-export errors are compared with a reference recomputed from the fixture; package URL <-> name@version is round-tripped for every file and probed with near-miss URLs; a complete part (url-mapping) enumerates every URL from 2 schemes x 9 look-alike authorities x paths of <= 4 segments over 9 segment texts and compares package_url_to_nv with an origin + path-segment reference, and the round trip through package_url.",
  "Every requirement of the alphabet matches exactly one published version (selection order is C06's subject). Default JsrUrlProvider only.",
  "DESIGN.md §4 C07", TECH + "; deviation-bounded enumeration of registries x importing programs against reference bookkeeping"),
 "C09": (True,
  "Every generated package inside the deviation bound (3 declaration slots x ~137 templates (the first slot all of them, the later slots ~80) x 23 reference forms, nested export-* barrels, 7 helper-module variants, 3 entrypoint sets, registry package or workspace member, one or two build + fast-check steps on one graph) and every package of the fast-check spec corpus goes through the real fast-check transform; each emitted module is re-parsed with scope analysis and checked for dangling references, imports of names the emitted counterpart does not export, unresolvable relative specifiers and source-map well-formedness / identifier fidelity.",
  "Emitted text is re-parsed with the same swc parser the subject uses (common-mode risk); export / signature / unresolved-identifier extractors and the VLQ source-map decoder are the harness's own. Packages that get diagnostics instead of output are only counted.",
  "DESIGN.md §4 C09-C11", TECH + "; deviation-bounded enumeration of generated packages + full corpus, closure oracle on the re-parsed output"),
 "C10": (True,
  "Same package space and corpus as C09; every emitted module is walked structurally: bodies erased to nothing or the placeholder return, constructors at most a placeholder super call, only declarations at statement level, initialisers inside the documented leavable grammar, explicit parameter and return types, TS-private members reduced, no ES-private members / decorators / parameter properties.",
  "Emitted text is re-parsed with the same swc parser the subject uses (common-mode risk); export / signature / unresolved-identifier extractors and the VLQ source-map decoder are the harness's own. Packages that get diagnostics instead of output are only counted. The leavable-expression grammar is the implementation's documented one (maybe_transform_expr_if_leavable).",
  "DESIGN.md §4 C09-C11", TECH + "; deviation-bounded enumeration of generated packages + full corpus, structural erasure oracle"),
 "C11": (True,
  "Same package space and corpus as C09; relational oracle between original and emitted text: resolved export-name sets (equal for entrypoints, subset otherwise), declaration kinds, every written annotation / type-parameter list / heritage clause / interface-type-enum text carried over, unused private declarations absent.",
  "Emitted text is re-parsed with the same swc parser the subject uses (common-mode risk); export / signature / unresolved-identifier extractors and the VLQ source-map decoder are the harness's own. Packages that get diagnostics instead of output are only counted. Overload implementation signatures are not public API and are not compared.",
  "DESIGN.md §4 C09-C11", TECH + "; deviation-bounded enumeration of generated packages + full corpus, relational API-preservation oracle"),
 "C12": (True,
  "All operation histories up to depth 4 (quick) / 5 (thorough) over a three-package world (two packages leading to a third; editable root program; first package as registry package or workspace member) with 2-4 source variants per module are replayed against the real fast-check transform with one shared cache (cold, warm, stale entries arise along the history); after each operation all-or-nothing per package is checked with and without the cache, recorded dependencies of every emitted module are compared with a re-analysis of the emitted text, the with-cache result is compared with the cache-less one, two cache-less runs are compared, and a second pass over the same graph object must change nothing.",
  "One hand-built world (7 modules, 23 variants: one imports the dependency package without exposing it, one star-re-exports it); fast_check_dts is outside it. Each operation rebuilds the graph from the current sources.",
  "DESIGN.md §4 C12", TECH + "; exhaustive operation histories over source variants with a shared cache, differential oracle against cache-less runs"),
 "C16": (True,
  "ALL star re-export graphs over 3 (quick) / 4 (thorough) modules x own-export assignments are built and the resolved export set of every module is compared with the least fixpoint the ES rules define (own names first, default never re-exported by star, cycles terminate under the watchdog); the symbol tables of the generated C09 packages (incl. dotted namespaces, merged declarations, overloads, expando, class members) and of the symbol spec corpus are checked to be trees consistent with their parent pointers, with sound declaration names / ranges / ids, and go-to-definition is run from every symbol. A complete, process-isolated part enumerates all 1 000 re-export graphs over 3 modules that mix named re-exports (direct and through an import) with export-star, cycles included: exported names against the ES rules, go-to-definition from every symbol and every export must return (a stack overflow of the child process is a violation).",
  "Tree conditions are the repository's own spec-helper conditions plus parent-pointer agreement. Termination is decided by the per-run watchdog (non-termination would be reported as a violation) and, for unbounded recursion, by the exit status of the child process the world runs in.",
  "DESIGN.md §4 C16", TECH + "; complete enumeration of star re-export graphs + deviation-bounded generated packages + corpus"),
}

ALL = ["C%02d" % i for i in range(1, 21)]

def main():
    hooks_commits = subprocess.run(["git", "-C", "/repo", "log", "--format=%H", "--grep", "^verif hooks"],
                                   capture_output=True, text=True).stdout.split()
    checks = []
    na = []
    for pid in ALL:
        if pid in P and P[pid][0]:
            _, text, note, ref, tech = P[pid]
            checks.append({
                "property_id": pid,
                "quick_cmd": f"./check {pid} --tier quick",
                "thorough_cmd": f"./check {pid} --tier thorough",
                "evidence_file": f"/verif/evidence/{pid}.json",
                "replay_cmd_template": f"./check {pid} --replay {{path}}",
                "engine": "dgmc",
                "level_claimed": {"category": "model_checking", "text": text, "design_ref": ref},
                "level_note": note,
                "technique": tech,
            })
        else:
            na.append({"property_id": pid, "reason": "check not built yet (work in progress; see DESIGN.md §4 for the planned model-checking design)"})
    m = {
        "version": 1,
        "setup_cmd": "cd /verif/harness && CARGO_NET_OFFLINE=true cargo build --release --offline",
        "hooks": {
            "guard": "cargo feature `verif_hooks` of deno_graph (off by default)",
            "enable": "the harness crate depends on deno_graph by path (/repo) with features = [\"verif_hooks\"]; every ./check run starts with cargo build, so it always tests /repo's working tree",
            "baseline_off_cmd": "cd /repo && cargo test --workspace --no-fail-fast --offline",
            "source_commits": hooks_commits,
            "add_only": True,
        },
        "engines": [{
            "name": "dgmc",
            "path": "/verif/harness",
            "serves_properties": [c["property_id"] for c in checks],
            "kind_free_text": "Rust binary: choice-prefix DFS explorer (Full / deviation-bounded), gated-future scheduler, scripted Loader/Locker/Executor/NpmResolver/Resolver, canonical graph observation, known-findings filter, evidence writer",
        }],
        "checks": checks,
        "not_applicable": na,
        "notes": "All checks share one binary; `./check <id>` rebuilds it from /repo's working tree first. Exit 2 = machinery error (never a verdict). known_findings.json lists recorded and fixed defects.",
    }
    with open(os.path.join(ROOT, "MANIFEST.json"), "w") as f:
        json.dump(m, f, indent=1)
        f.write("\n")

if __name__ == "__main__":
    main()
