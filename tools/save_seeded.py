#!/usr/bin/env python3
"""save_seeded.py <seed-id> <check> <signature> <note> [round-note]
Copies a confirmed seeded change from /tmp/seeded_stage/<seed-id>/ to /verif/seeded/<seed-id>/
and writes meta.json (agent's description + what I ran + which check reports it)."""
import json, os, shutil, sys
sid, check, sig, note = sys.argv[1:5]
src = f"/tmp/seeded_stage/{sid}"; dst = f"/verif/seeded/{sid}"
os.makedirs(dst, exist_ok=True)
for f in ("patch.diff", "seeded_demo.rs", "confirm.log", "patch.orig.diff"):
    if os.path.exists(f"{src}/{f}"):
        shutil.copy(f"{src}/{f}", f"{dst}/{f}")
a = json.load(open(f"{src}/agent_meta.json"))
lines = [l.strip() for l in open(f"{src}/confirm.log") if l.startswith(("test result", "demo_", "hooks_build"))]
meta = {
    "property": a.get("property", sid[:3]),
    "summary": a.get("summary"),
    "needs_to_manifest": a.get("needs_to_manifest"),
    "why_existing_tests_pass": a.get("why_existing_tests_pass"),
    "origin": ("independent sub-agent (seventh round: the defect had to be split over two cooperating sites that each look fine alone - a helper's contract and one of its callers, a writer and one of several readers, a producer and a consumer) given only the property record, the list of ideas used in earlier rounds and a scratch worktree" if sid.endswith("-g") else "independent sub-agent (eighth round) given only the property record, the list of ideas used in earlier rounds and a scratch worktree" if sid.endswith("-h") else "independent sub-agent (third round: the change had to matter only with a non-default option, a rarely used feature or a particular sequence of API calls) given only the property record and a scratch worktree" if sid.endswith("-c") else "independent sub-agent (fourth round: the change had to sit in a less travelled file or helper, or concern an unusual kind of module / specifier) given only the property record and a scratch worktree" if sid.endswith("-d") else "independent sub-agent (second round: asked for a change different in kind from an obvious one-line slip) given only the property record and a scratch worktree"),
    "confirmed_by_me": {
        "how": "tools/confirm_seeded.sh in the scratch worktree: demo passes on the clean tree, fails with patch.diff applied; pinned suite (cargo test --workspace --no-fail-fast --offline) with the patch; build with --features verif_hooks",
        "result_lines": lines,
    },
    "detected_by": [{"check": check, "signature": sig, "note": note}],
}
json.dump(meta, open(f"{dst}/meta.json", "w"), indent=1)
print("saved", dst)
