#!/usr/bin/env python3
import json,sys
v=json.load(open(sys.argv[1]))
print("SIG", v['signature']); print("MSG", v['info']['message'][:600])
d=v['info']['detail']
w=d.get('world')
if w:
    print("roots", w.get('roots'), "types_header", w.get('types_header'))
    for e in w['entries']:
        print(' ', e['specifier'], e['kind'], e.get('imported_with',''), e.get('redirects_to',''))
        if 'source' in e: print('     | '+e['source'].replace('\n','\n     | '))
for k in d:
    if k not in ('world',): print(k, '=', json.dumps(d[k])[:int(sys.argv[2]) if len(sys.argv)>2 else 700])
