#!/usr/bin/env bash
# try_seeded.sh <patch.diff> <tier> <prop> [<prop>...]: applies a seeded change to /repo,
# runs the named checks, and always reverts /repo afterwards.
set -u
PATCH="$1"; TIER="$2"; shift 2
cd /repo || exit 2
if ! git diff --quiet; then echo "/repo has uncommitted changes; refusing" >&2; exit 2; fi
git apply "$PATCH" || { echo "patch does not apply" >&2; exit 2; }
# evidence and replays written while the change is applied describe the changed tree: keep them aside
SAVE=$(mktemp -d /tmp/evidence_save.XXXX); cp -a /verif/evidence/. "$SAVE"/
trap 'git -C /repo checkout -- . ; cp -a "$SAVE"/. /verif/evidence/; rm -rf "$SAVE"; (cd /verif/harness && cargo build --release --offline >/dev/null 2>&1)' EXIT
for p in "$@"; do
  out=$(cd /verif && ./check "$p" --tier "$TIER" 2>&1); code=$?
  echo "== $p exit=$code"
  echo "$out" | grep -E "^VIOLATION|^KNOWN|MACHINERY" | cut -c1-200 | head -5
  echo "$out" | grep -E "^  \[" | cut -c1-300 | head -3
done
